package main

import (
	"fmt"
	"go/ast"
	"go/constant"
	"go/token"
	"go/types"
	"sort"
	"strconv"
	"strings"

	"golang.org/x/tools/go/ssa"
	"golang.org/x/tools/go/ssa/ssautil"
)

// TransDecl: "transitions <func> props C10 : S>D S>D ...": the fsm.Events literal returned by <func> is evaluated
// from the typed AST of the working tree (DESIGN Appendix A (c): composite literals that are data) and every
// (source, destination) pair it defines must be in the documented relation (self transitions are not changes).
type TransDecl struct {
	Pkg, Func string
	Props     []string
	Allowed   map[string]bool
	Text      string
}

// evalTransitions returns the (src, dst, event) triples of the literal, or an error if it cannot be evaluated.
func evalTransitions(w *World, td TransDecl) ([][3]string, error) {
	var out [][3]string
	for path, p := range w.ByPath {
		if !strings.HasPrefix(path, modulePath) || p.Name != td.Pkg {
			continue
		}
		for _, f := range p.Syntax {
			for _, d := range f.Decls {
				fd, ok := d.(*ast.FuncDecl)
				if !ok || fd.Recv != nil || fd.Name.Name != td.Func || fd.Body == nil {
					continue
				}
				var lit *ast.CompositeLit
				ast.Inspect(fd.Body, func(n ast.Node) bool {
					if r, ok := n.(*ast.ReturnStmt); ok && len(r.Results) == 1 {
						if cl, ok := r.Results[0].(*ast.CompositeLit); ok && lit == nil {
							lit = cl
						}
					}
					return true
				})
				if lit == nil {
					return nil, fmt.Errorf("%s does not return a composite literal", td.Func)
				}
				for _, el := range lit.Elts {
					cl, ok := el.(*ast.CompositeLit)
					if !ok {
						return nil, fmt.Errorf("element of the table is not a literal")
					}
					var name, dst string
					var srcs []string
					for _, kv := range cl.Elts {
						kve, ok := kv.(*ast.KeyValueExpr)
						if !ok {
							return nil, fmt.Errorf("table entry without field names")
						}
						key := kve.Key.(*ast.Ident).Name
						switch key {
						case "Name", "Dst":
							s, err := evalStringer(p.TypesInfo, p.Syntax, kve.Value)
							if err != nil {
								return nil, err
							}
							if key == "Name" {
								name = s
							} else {
								dst = s
							}
						case "Src":
							sl, ok := kve.Value.(*ast.CompositeLit)
							if !ok {
								return nil, fmt.Errorf("Src is not a literal")
							}
							for _, se := range sl.Elts {
								s, err := evalStringer(p.TypesInfo, p.Syntax, se)
								if err != nil {
									return nil, err
								}
								srcs = append(srcs, s)
							}
						}
					}
					for _, s := range srcs {
						out = append(out, [3]string{s, dst, name})
					}
				}
				return out, nil
			}
		}
	}
	return nil, fmt.Errorf("function %s.%s not found", td.Pkg, td.Func)
}

// evalStringer evaluates `Const.String()` where String is `return [...]string{...}[recv]`, or a string constant.
func evalStringer(info *types.Info, files []*ast.File, e ast.Expr) (string, error) {
	if tv, ok := info.Types[e]; ok && tv.Value != nil && tv.Value.Kind() == constant.String {
		return constant.StringVal(tv.Value), nil
	}
	call, ok := e.(*ast.CallExpr)
	if !ok {
		return "", fmt.Errorf("cannot evaluate table expression")
	}
	sel, ok := call.Fun.(*ast.SelectorExpr)
	if !ok || sel.Sel.Name != "String" {
		return "", fmt.Errorf("table expression is not X.String()")
	}
	tv, ok := info.Types[sel.X]
	if !ok || tv.Value == nil {
		return "", fmt.Errorf("receiver of String() is not a constant")
	}
	idx, _ := constant.Int64Val(tv.Value)
	named, ok := types.Unalias(tv.Type).(*types.Named)
	if !ok {
		return "", fmt.Errorf("receiver type is not named")
	}
	for _, f := range files {
		for _, d := range f.Decls {
			fd, ok := d.(*ast.FuncDecl)
			if !ok || fd.Recv == nil || fd.Name.Name != "String" || fd.Body == nil || len(fd.Recv.List) != 1 {
				continue
			}
			rt := info.TypeOf(fd.Recv.List[0].Type)
			if rt == nil || !types.Identical(rt, named) {
				continue
			}
			var res string
			found := false
			ast.Inspect(fd.Body, func(n ast.Node) bool {
				ix, ok := n.(*ast.IndexExpr)
				if !ok {
					return true
				}
				cl, ok := ix.X.(*ast.CompositeLit)
				if !ok {
					return true
				}
				if int(idx) < len(cl.Elts) && idx >= 0 {
					if bl, ok := cl.Elts[idx].(*ast.BasicLit); ok {
						if s, err := strconv.Unquote(bl.Value); err == nil {
							res, found = s, true
						}
					}
				}
				return false
			})
			if found {
				return res, nil
			}
		}
	}
	return "", fmt.Errorf("String() of %s is not an array-literal lookup", named.Obj().Name())
}

// evalConstMap reads the composite literal that initialises the package-level map variable cd.Var and returns its
// entries (constant keys and values as exact decimal strings).
func evalConstMap(w *World, cd ConstMapDecl) (map[string]string, error) {
	for path, p := range w.ByPath {
		if !strings.HasPrefix(path, modulePath) || p.Name != cd.Pkg {
			continue
		}
		for _, f := range p.Syntax {
			for _, d := range f.Decls {
				gd, ok := d.(*ast.GenDecl)
				if !ok {
					continue
				}
				for _, sp := range gd.Specs {
					vs, ok := sp.(*ast.ValueSpec)
					if !ok {
						continue
					}
					for i, n := range vs.Names {
						if n.Name != cd.Var || i >= len(vs.Values) {
							continue
						}
						lit, ok := vs.Values[i].(*ast.CompositeLit)
						if !ok {
							return nil, fmt.Errorf("%s is not initialised by a composite literal", cd.Var)
						}
						out := map[string]string{}
						for _, el := range lit.Elts {
							kv, ok := el.(*ast.KeyValueExpr)
							if !ok {
								return nil, fmt.Errorf("%s: element without key", cd.Var)
							}
							kt, vt := p.TypesInfo.Types[kv.Key], p.TypesInfo.Types[kv.Value]
							if kt.Value == nil || vt.Value == nil {
								return nil, fmt.Errorf("%s: non-constant entry", cd.Var)
							}
							k := kt.Value.ExactString()
							if kt.Value.Kind() == constant.String {
								k = constant.StringVal(kt.Value)
							}
							out[k] = vt.Value.ExactString()
						}
						return out, nil
					}
				}
			}
		}
	}
	return nil, fmt.Errorf("package variable %s.%s not found", cd.Pkg, cd.Var)
}

// constMapWriters lists the functions (other than package initialisation) that store to the variable or update /
// delete from the map it holds.
func constMapWriters(w *World, cd ConstMapDecl) []string {
	var out []string
	isVar := func(v ssa.Value) bool {
		if u, ok := v.(*ssa.UnOp); ok && u.Op == token.MUL {
			v = u.X
		}
		g, ok := v.(*ssa.Global)
		return ok && g.Name() == cd.Var && g.Pkg.Pkg.Name() == cd.Pkg
	}
	for fn := range ssautil.AllFunctions(w.Prog) {
		if fn.Pkg == nil || !strings.HasPrefix(fn.Pkg.Pkg.Path(), modulePath) || fn.Name() == "init" || strings.HasPrefix(fn.Name(), "init#") {
			continue
		}
		for _, b := range fn.Blocks {
			for _, ins := range b.Instrs {
				switch x := ins.(type) {
				case *ssa.Store:
					if g, ok := x.Addr.(*ssa.Global); ok && g.Name() == cd.Var && g.Pkg.Pkg.Name() == cd.Pkg {
						out = append(out, funcKey(fn))
					}
				case *ssa.MapUpdate:
					if isVar(x.Map) {
						out = append(out, funcKey(fn))
					}
				case *ssa.Call:
					if bi, ok := x.Call.Value.(*ssa.Builtin); ok && (bi.Name() == "delete" || bi.Name() == "clear") && len(x.Call.Args) > 0 && isVar(x.Call.Args[0]) {
						out = append(out, funcKey(fn))
					}
				}
			}
		}
	}
	sort.Strings(out)
	return out
}
