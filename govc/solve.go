package main

import (
	"bytes"
	"context"
	"fmt"
	"os"
	"os/exec"
	"path/filepath"
	"strings"
	"sync"
	"time"
)

type SolveResult struct {
	Status  string  // unsat | sat | unknown | timeout | error
	Backend string  // solver that decided
	Ms      float64 // wall time of the deciding run
	Output  string
	File    string
	Tried   []string
}

type solverDef struct {
	name string
	args func(file string, timeoutS int) []string
}

var solvers = []solverDef{
	{"z3-new", func(f string, t int) []string { return []string{"z3-new", fmt.Sprintf("-T:%d", t), f} }},
	{"z3", func(f string, t int) []string { return []string{"z3", fmt.Sprintf("-T:%d", t), f} }},
	{"cvc5", func(f string, t int) []string {
		return []string{"cvc5", "--produce-models", fmt.Sprintf("--tlimit=%d", t*1000), f}
	}},
}

func writeQuery(dir string, o *Obligation, withModel bool) (string, error) {
	name := sanitize(o.Name)
	if len(name) > 150 {
		name = name[:150]
	}
	path := filepath.Join(dir, name+".smt2")
	var sb strings.Builder
	sb.WriteString("; obligation " + o.Name + "\n; " + strings.ReplaceAll(o.Text, "\n", " ") + "\n")
	sb.WriteString("(set-logic ALL)\n")
	for _, c := range o.Cmds {
		sb.WriteString(c)
		sb.WriteByte('\n')
	}
	sb.WriteString("(assert (not " + o.Goal + "))\n(check-sat)\n")
	if withModel {
		sb.WriteString("(get-model)\n")
	}
	if err := os.MkdirAll(dir, 0o755); err != nil {
		return "", err
	}
	return path, os.WriteFile(path, []byte(sb.String()), 0o644)
}

func runSolver(sd solverDef, file string, timeoutS int) (status, out string, ms float64) {
	args := sd.args(file, timeoutS)
	ctx, cancel := context.WithTimeout(context.Background(), time.Duration(timeoutS+2)*time.Second)
	defer cancel()
	cmd := exec.CommandContext(ctx, args[0], args[1:]...)
	var buf bytes.Buffer
	cmd.Stdout = &buf
	cmd.Stderr = &buf
	t0 := time.Now()
	_ = cmd.Run()
	ms = float64(time.Since(t0).Microseconds()) / 1000
	out = buf.String()
	first := strings.TrimSpace(strings.SplitN(out, "\n", 2)[0])
	switch first {
	case "unsat", "sat", "unknown":
		return first, out, ms
	case "timeout":
		return "timeout", out, ms
	}
	if ctx.Err() != nil {
		return "timeout", out, ms
	}
	// cvc5 reports errors for z3-specific syntax; z3 may print warnings first
	for _, l := range strings.Split(out, "\n") {
		l = strings.TrimSpace(l)
		if l == "unsat" || l == "sat" || l == "unknown" || l == "timeout" {
			return l, out, ms
		}
	}
	return "error", out, ms
}

// solve discharges one obligation with the portfolio: z3-new first, then the others in parallel.
func solve(dir string, o *Obligation, timeoutS int, twoSolvers bool) *SolveResult {
	file, err := writeQuery(dir, o, true)
	if err != nil {
		return &SolveResult{Status: "error", Output: err.Error()}
	}
	res := &SolveResult{File: file}
	if o.Cover {
		// a cover only needs "not refuted": quantified hypotheses rarely give the solver a model, so do not wait long
		status, out, ms := runSolver(solvers[0], file, 2)
		res.Status, res.Backend, res.Ms, res.Output = status, solvers[0].name, ms, out
		res.Tried = append(res.Tried, fmt.Sprintf("%s:%s:%.0fms", solvers[0].name, status, ms))
		return res
	}
	first := timeoutS
	if first > 8 && !o.Cover {
		first = timeoutS / 2
	}
	status, out, ms := runSolver(solvers[0], file, first)
	res.Tried = append(res.Tried, fmt.Sprintf("%s:%s:%.0fms", solvers[0].name, status, ms))
	if status == "unsat" || status == "sat" {
		res.Status, res.Backend, res.Ms, res.Output = status, solvers[0].name, ms, out
		if status == "unsat" && twoSolvers {
			agree := false
			for _, sd := range solvers[1:] {
				s2, _, ms2 := runSolver(sd, file, timeoutS)
				res.Tried = append(res.Tried, fmt.Sprintf("%s:%s:%.0fms", sd.name, s2, ms2))
				if s2 == "unsat" {
					agree = true
					res.Backend += "+" + sd.name
					break
				}
				if s2 == "sat" {
					res.Status = "disagree"
					return res
				}
			}
			_ = agree
		}
		return res
	}
	// fall back: the other two in parallel
	type r struct {
		sd          solverDef
		status, out string
		ms          float64
	}
	ch := make(chan r, len(solvers)-1)
	var wg sync.WaitGroup
	for _, sd := range solvers[1:] {
		wg.Add(1)
		go func(sd solverDef) {
			defer wg.Done()
			s, o, m := runSolver(sd, file, timeoutS)
			ch <- r{sd, s, o, m}
		}(sd)
	}
	wg.Wait()
	close(ch)
	best := r{status: status, out: out, ms: ms, sd: solvers[0]}
	for x := range ch {
		res.Tried = append(res.Tried, fmt.Sprintf("%s:%s:%.0fms", x.sd.name, x.status, x.ms))
		if x.status == "unsat" || (x.status == "sat" && best.status != "unsat") {
			best = x
		}
	}
	res.Status, res.Backend, res.Ms, res.Output = best.status, best.sd.name, best.ms, best.out
	return res
}
