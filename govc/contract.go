package main

import (
	"fmt"
	"os"
	"path/filepath"
	"regexp"
	"strconv"
	"strings"
)

// Clause is one requires / ensures / invariant line.
type Clause struct {
	Kind  string // requires ensures invariant decreases
	Text  string
	E     Expr
	Props []string // properties this clause serves (empty: the function's)
	N     int      // ordinal among clauses of its kind (1-based)
	Label string   // optional stable label: ensures[fits] ...
}

type LoopSpec struct {
	N          int
	Invariants []*Clause
	Assigns    []Target
	HasAssigns bool
	Decreases  *Clause
	Exhaustive bool      // the loop is only left through its range/condition check (no break / return inside)
	Each       []*Clause // per-iteration postconditions: asserted on every back edge (iter() = start of the iteration)
}

// ConstMapDecl: constmap <var> props C18 : key=value ...  The package-level map literal must be exactly this table and
// must never be written outside package initialisation; the entries are then available as facts.
type ConstMapDecl struct {
	Pkg, Var string
	Props    []string
	Entries  map[string]string
	Keys     []string
	Text     string
}

// SiteSpec is an assertion attached to a semantic anchor inside a function:
// "at call X#n: assert e", "at append F#n: assert e".
type SiteSpec struct {
	AnchorKind string // call | append | return | store
	Anchor     string // callee key / field name
	N          int
	When       string // before | after
	Clause     *Clause
	IsAssume   bool
}

type FuncSpec struct {
	Key         string // pkg.Func or pkg.Recv.Method
	Header      string
	ResultNames []string
	Props       []string
	Requires    []*Clause
	Ensures     []*Clause
	Assigns     []Target
	HasAssigns  bool
	Loops       map[int]*LoopSpec
	Sites       []*SiteSpec
	Pure        bool
	Trusted     string // non-empty: contract is assumed, body not verified (reason)
	NoPanic     bool   // generate panic-freedom obligations (default true for verified bodies)
	Sweep       bool   // safety-only: loops without invariants are havocked
	FloatFP     bool   // model float64 with the SMT FloatingPoint theory in this function
	Inline      bool   // callers inline the ensures as definitions (same as contract; reserved)
	File        string
	Line        int
	Modes       map[string]string
	Uses        []*Clause // lemma instances assumed at entry: use lemma(args)
	Holds       []*Clause // visible-state type invariants assumed at entry (not a caller obligation)
}

type SpecFunc struct {
	Name     string
	Params   []QVar
	RetType  string
	Body     Expr
	Text     string
	Rec      bool
	Abstract bool
}

type TypeInv struct {
	Type    string // pkg.Type
	Var     string
	Clauses []*Clause
	Props   []string
}

type GlobalInv struct {
	Pkg     string
	Clause  *Clause
	Checked bool // justified by a static check (unique-field writer scan), not a bare assumption
}

type Contracts struct {
	Funcs      map[string]*FuncSpec
	Specs      map[string]*SpecFunc
	TypeInvs   map[string]*TypeInv
	GlobalInvs []*GlobalInv
	Lemmas     []*Lemma
	Files      []string
	Assumed    []string // human readable list of assumed (trusted) contracts
	ConstMaps  []ConstMapDecl
	Chains     map[string]string // pkg.Type -> name of the acyclic parent-link field
	Uniques    []UniqueDecl      // fields holding an object owned by exactly one struct (checked by a writer scan)
	Unreach    []UnreachDecl     // call-graph frame obligations
	Trans      []TransDecl       // state-machine tables checked against a documented relation
}

// UnreachDecl: none of the To functions is reachable from any From function in the call graph
// (static calls, interface calls by class hierarchy, function values by signature).
type UnreachDecl struct {
	Name     string
	From, To []string
	Props    []string
	Callers  bool // "callersof" form: To[0] may only be called (statically) from the functions in From
	Frame    bool // "frame" form: the inferred write set of the From functions contains none of the components in To
}

type UniqueDecl struct {
	Pkg, Type, Field string
	Props            []string
}

type Lemma struct {
	Name    string
	Vars    []QVar
	Hyps    []*Clause
	Concl   []*Clause
	Props   []string
	Bounded string // non-empty => bounded stand-in description
}

var keywords = map[string]bool{
	"func": true, "spec": true, "requires": true, "ensures": true, "assigns": true, "loop": true,
	"props": true, "pure": true, "trusted": true, "invariant": true, "global": true, "lemma": true,
	"at": true, "mode": true, "use": true, "chain": true, "unique": true, "unreachable": true, "holds": true, "callersof": true, "transitions": true, "constmap": true, "frame": true, "sweep": true, "hyp": true, "concl": true, "package": true, "rec": true,
}

var funcHdr = regexp.MustCompile(`^func\s*(?:\(\s*(?:\w+\s+)?\*?\s*(\w+)\s*\))?\s*([\w$]+?(?:\$calls\([\w.$]+\))?)\s*(\(.*)$`)

// loadContracts reads every zz_contracts_verif.go under the repo plus the
// assumed contracts under /verif/contracts/assumed.
func loadContracts(repo string, extraDirs ...string) (*Contracts, error) {
	cs := &Contracts{Funcs: map[string]*FuncSpec{}, Specs: map[string]*SpecFunc{}, TypeInvs: map[string]*TypeInv{}, Chains: map[string]string{}}
	var files []string
	filepath.Walk(filepath.Join(repo, "pkg"), func(p string, info os.FileInfo, err error) error {
		if err == nil && !info.IsDir() && info.Name() == "zz_contracts_verif.go" {
			files = append(files, p)
		}
		return nil
	})
	for _, d := range extraDirs {
		m, _ := filepath.Glob(filepath.Join(d, "*.spec"))
		files = append(files, m...)
	}
	for _, f := range files {
		if err := cs.parseFile(f); err != nil {
			return nil, fmt.Errorf("%s: %v", f, err)
		}
	}
	cs.Files = files
	return cs, nil
}

type rawLine struct {
	text string
	line int
}

func (cs *Contracts) parseFile(path string) error {
	data, err := os.ReadFile(path)
	if err != nil {
		return err
	}
	pkg := ""
	// join continuation lines
	var lines []rawLine
	for i, l := range strings.Split(string(data), "\n") {
		t := strings.TrimSpace(l)
		if strings.HasPrefix(t, "package ") && pkg == "" {
			pkg = strings.TrimSpace(strings.TrimPrefix(t, "package "))
			continue
		}
		if !strings.HasPrefix(t, "//@") {
			continue
		}
		t = strings.TrimSpace(strings.TrimPrefix(t, "//@"))
		if i := strings.Index(t, " //"); i >= 0 { // trailing comment
			t = strings.TrimSpace(t[:i])
		}
		if t == "" || strings.HasPrefix(t, "//") {
			continue
		}
		first := t
		if j := strings.IndexAny(t, " \t(["); j >= 0 {
			first = t[:j]
		}
		if !keywords[first] && len(lines) > 0 {
			lines[len(lines)-1].text += " " + t
			continue
		}
		lines = append(lines, rawLine{t, i + 1})
	}
	var cur *FuncSpec
	var curInv *TypeInv
	var curLemma *Lemma
	for _, rl := range lines {
		t := rl.text
		fail := func(f string, a ...any) error {
			return fmt.Errorf("line %d: %s", rl.line, fmt.Sprintf(f, a...))
		}
		word, rest := t, ""
		if j := strings.IndexAny(t, " \t"); j >= 0 {
			word, rest = t[:j], strings.TrimSpace(t[j:])
		}
		label := ""
		if j := strings.Index(word, "["); j >= 0 && strings.HasSuffix(word, "]") {
			label = word[j+1 : len(word)-1]
			word = word[:j]
		}
		switch word {
		case "package":
			pkg = rest
		case "func":
			m := funcHdr.FindStringSubmatch(t)
			if m == nil {
				return fail("bad func header %q", t)
			}
			key := pkg + "." + m[2]
			if m[1] != "" {
				key = pkg + "." + m[1] + "." + m[2]
			}
			if _, dup := cs.Funcs[key]; dup {
				return fail("duplicate contract for %s", key)
			}
			cur = &FuncSpec{Key: key, Header: t, Loops: map[int]*LoopSpec{}, File: path, Line: rl.line, NoPanic: true, Modes: map[string]string{}}
			cur.ResultNames = parseResultNames(m[3])
			cs.Funcs[key] = cur
			curInv, curLemma = nil, nil
		case "spec":
			sf, err := parseSpecFunc(rest)
			if err != nil {
				return fail("%v", err)
			}
			cs.Specs[sf.Name] = sf
			cur, curInv, curLemma = nil, nil, nil
		case "props":
			ps := strings.Fields(strings.ReplaceAll(rest, ",", " "))
			switch {
			case cur != nil:
				cur.Props = ps
			case curInv != nil:
				curInv.Props = ps
			case curLemma != nil:
				curLemma.Props = ps
			default:
				return fail("props outside func/invariant/lemma")
			}
		case "requires", "ensures":
			if cur == nil {
				return fail("%s outside func", word)
			}
			e, err := parseExpr(rest)
			if err != nil {
				return fail("%v", err)
			}
			c := &Clause{Kind: word, Text: rest, E: e, Label: label}
			if word == "requires" {
				c.N = len(cur.Requires) + 1
				cur.Requires = append(cur.Requires, c)
			} else {
				c.N = len(cur.Ensures) + 1
				cur.Ensures = append(cur.Ensures, c)
			}
		case "assigns":
			if cur == nil {
				return fail("assigns outside func")
			}
			ts, err := parseTargets(rest)
			if err != nil {
				return fail("%v", err)
			}
			cur.Assigns = append(cur.Assigns, ts...)
			cur.HasAssigns = true
		case "pure":
			if cur == nil {
				return fail("pure outside func")
			}
			cur.Pure = true
			cur.HasAssigns = true
		case "trusted":
			if cur == nil {
				return fail("trusted outside func")
			}
			cur.Trusted = strings.Trim(rest, `"`)
			if cur.Trusted == "" {
				cur.Trusted = "assumed"
			}
		case "chain":
			// chain Queue.parent : the link field is acyclic (assumption, justified by a writer scan)
			tf := strings.Split(strings.TrimSpace(rest), ".")
			if len(tf) != 2 {
				return fail("chain needs Type.field")
			}
			cs.Chains[pkg+"."+tf[0]] = tf[1]
			cs.Assumed = append(cs.Assumed, "acyclic parent chain "+pkg+"."+rest+" (the link is only written on freshly constructed objects)")
			cur, curInv, curLemma = nil, nil, nil
		case "constmap":
			fs := strings.Fields(rest)
			cd := ConstMapDecl{Pkg: pkg, Var: fs[0], Entries: map[string]string{}, Text: rest}
			mode := ""
			for _, f := range fs[1:] {
				if f == "props" || f == ":" {
					mode = f
					continue
				}
				if mode == "props" {
					cd.Props = append(cd.Props, f)
				} else if mode == ":" {
					k, v, ok := strings.Cut(f, "=")
					if !ok {
						return fail("constmap entry %q is not key=value", f)
					}
					k = strings.Trim(k, `"`)
					cd.Entries[k] = v
					cd.Keys = append(cd.Keys, k)
				}
			}
			cs.ConstMaps = append(cs.ConstMaps, cd)
			// the table as facts (checked by the constmap obligations, so not an assumption)
			var conj []string
			var dom []string
			for _, k := range cd.Keys {
				conj = append(conj, fmt.Sprintf("%s[%q] == %s", cd.Var, k, cd.Entries[k]))
				dom = append(dom, fmt.Sprintf("k == %q", k))
			}
			conj = append(conj, "(forall k string :: (k in "+cd.Var+") <==> ("+strings.Join(dom, " || ")+"))")
			txt := strings.Join(conj, " && ")
			e, err := parseExpr(txt)
			if err != nil {
				return fail("constmap: %v", err)
			}
			cs.GlobalInvs = append(cs.GlobalInvs, &GlobalInv{Pkg: pkg, Clause: &Clause{Kind: "global", Text: txt, E: e}})
			cur, curInv, curLemma = nil, nil, nil
		case "transitions":
			fs := strings.Fields(rest)
			td := TransDecl{Pkg: pkg, Func: fs[0], Allowed: map[string]bool{}, Text: rest}
			mode := ""
			for _, f := range fs[1:] {
				if f == "props" || f == ":" {
					mode = f
					continue
				}
				if mode == "props" {
					td.Props = append(td.Props, f)
				} else if mode == ":" {
					td.Allowed[f] = true
				}
			}
			cs.Trans = append(cs.Trans, td)
			cur, curInv, curLemma = nil, nil, nil
		case "frame":
			// frame <name> props C16 from <func keys> : <components, '*' suffix = prefix>
			fs := strings.Fields(rest)
			ud := UnreachDecl{Name: pkg + "." + fs[0], Frame: true}
			mode := ""
			for _, f := range fs[1:] {
				switch f {
				case "props", "from", ":":
					mode = f
					continue
				}
				switch mode {
				case "props":
					ud.Props = append(ud.Props, f)
				case "from":
					ud.From = append(ud.From, f)
				case ":":
					ud.To = append(ud.To, f)
				}
			}
			cs.Unreach = append(cs.Unreach, ud)
			cur, curInv, curLemma = nil, nil, nil
		case "callersof":
			// callersof <callee> props C01 : allowed caller keys   (every static call site of callee is in one of them)
			fs := strings.Fields(rest)
			ud := UnreachDecl{Name: pkg + ".callersof(" + fs[0] + ")", To: []string{fs[0]}, Callers: true}
			mode := ""
			for _, f := range fs[1:] {
				if f == "props" || f == ":" {
					mode = f
					continue
				}
				if mode == "props" {
					ud.Props = append(ud.Props, f)
				} else if mode == ":" {
					ud.From = append(ud.From, f)
				}
			}
			cs.Unreach = append(cs.Unreach, ud)
			cur, curInv, curLemma = nil, nil, nil
		case "unreachable":
			// unreachable <name> props C02 from a b c : x y
			fs := strings.Fields(rest)
			ud := UnreachDecl{Name: pkg + "." + fs[0]}
			mode := ""
			for _, f := range fs[1:] {
				switch f {
				case "props", "from", ":":
					mode = f
					continue
				}
				switch mode {
				case "props":
					ud.Props = append(ud.Props, f)
				case "from":
					ud.From = append(ud.From, f)
				case ":":
					ud.To = append(ud.To, f)
				}
			}
			if len(ud.From) == 0 || len(ud.To) == 0 {
				return fail("unreachable needs 'from <roots> : <targets>'")
			}
			cs.Unreach = append(cs.Unreach, ud)
			cur, curInv, curLemma = nil, nil, nil
		case "unique":
			// unique Queue.allocatingAcceptedApps [props C11]: distinct objects never share the map/slice/pointer in this field
			fs := strings.Fields(rest)
			tf := strings.Split(fs[0], ".")
			if len(tf) != 2 {
				return fail("unique needs Type.field")
			}
			ud := UniqueDecl{Pkg: pkg, Type: tf[0], Field: tf[1]}
			if len(fs) > 2 && fs[1] == "props" {
				ud.Props = fs[2:]
			}
			cs.Uniques = append(cs.Uniques, ud)
			txt := fmt.Sprintf("forall ua *%s, ub *%s :: ua != ub && ua.%s != nil ==> ua.%s != ub.%s", tf[0], tf[0], tf[1], tf[1], tf[1])
			e, err := parseExpr(txt)
			if err != nil {
				return fail("%v", err)
			}
			cs.GlobalInvs = append(cs.GlobalInvs, &GlobalInv{Pkg: pkg, Clause: &Clause{Kind: "global", Text: txt, E: e}, Checked: true})
			cur, curInv, curLemma = nil, nil, nil
		case "holds":
			// holds inv(x): the type invariant of x is assumed at entry under visible-state semantics: every function
			// that writes the fields it mentions re-establishes it before returning (writer-closure obligation), so
			// callers do not have to prove it
			if cur == nil {
				return fail("holds outside func")
			}
			e, err := parseExpr(rest)
			if err != nil {
				return fail("%v", err)
			}
			cur.Holds = append(cur.Holds, &Clause{Kind: "holds", Text: rest, E: e, N: len(cur.Holds) + 1})
		case "use":
			if cur == nil {
				return fail("use outside func")
			}
			e, err := parseExpr(rest)
			if err != nil {
				return fail("%v", err)
			}
			if _, ok := e.(*ECall); !ok {
				return fail("use needs a lemma instance: use name(args)")
			}
			cur.Uses = append(cur.Uses, &Clause{Kind: "use", Text: rest, E: e, N: len(cur.Uses) + 1})
		case "sweep":
			if cur == nil {
				return fail("sweep outside func")
			}
			cur.Sweep = true
		case "mode":
			if cur == nil {
				return fail("mode outside func")
			}
			for _, f := range strings.Fields(rest) {
				k, v, _ := strings.Cut(f, "=")
				cur.Modes[k] = v
				if k == "float" && v == "fp" {
					cur.FloatFP = true
				}
				if k == "nopanic" && v == "off" {
					cur.NoPanic = false
				}
			}
		case "loop":
			if cur == nil {
				return fail("loop outside func")
			}
			hd, body, ok := strings.Cut(rest, ":")
			if !ok {
				return fail("loop clause needs 'loop N: ...'")
			}
			n, err := strconv.Atoi(strings.TrimSpace(hd))
			if err != nil {
				return fail("bad loop ordinal %q", hd)
			}
			ls := cur.Loops[n]
			if ls == nil {
				ls = &LoopSpec{N: n}
				cur.Loops[n] = ls
			}
			body = strings.TrimSpace(body)
			kw, arg, _ := strings.Cut(body, " ")
			arg = strings.TrimSpace(arg)
			switch kw {
			case "invariant":
				e, err := parseExpr(arg)
				if err != nil {
					return fail("%v", err)
				}
				ls.Invariants = append(ls.Invariants, &Clause{Kind: "invariant", Text: arg, E: e, N: len(ls.Invariants) + 1})
			case "exhaustive":
				ls.Exhaustive = true
			case "each":
				e, err := parseExpr(arg)
				if err != nil {
					return fail("%v", err)
				}
				ls.Each = append(ls.Each, &Clause{Kind: "each", Text: arg, E: e, N: len(ls.Each) + 1})
			case "assigns":
				ts, err := parseTargets(arg)
				if err != nil {
					return fail("%v", err)
				}
				ls.Assigns = append(ls.Assigns, ts...)
				ls.HasAssigns = true
			case "decreases":
				e, err := parseExpr(arg)
				if err != nil {
					return fail("%v", err)
				}
				ls.Decreases = &Clause{Kind: "decreases", Text: arg, E: e, N: 1}
			default:
				return fail("unknown loop clause %q", kw)
			}
		case "at":
			// at call resources.addVal#1 before: assert e
			if cur == nil {
				return fail("at outside func")
			}
			hd, body, ok := strings.Cut(rest, ":")
			if !ok {
				return fail("site clause needs 'at <kind> <anchor>#n [before|after]: assert e'")
			}
			fs := strings.Fields(hd)
			if len(fs) < 2 {
				return fail("bad site header %q", hd)
			}
			ss := &SiteSpec{AnchorKind: fs[0], When: "before", N: 1}
			an, ns, has := strings.Cut(fs[1], "#")
			ss.Anchor = an
			if has {
				if ns == "*" {
					ss.N = 0
				} else if ss.N, err = strconv.Atoi(ns); err != nil {
					return fail("bad site ordinal %q", ns)
				}
			}
			if len(fs) > 2 {
				ss.When = fs[2]
			}
			body = strings.TrimSpace(body)
			kw, arg, _ := strings.Cut(body, " ")
			if kw != "assert" && kw != "assume" {
				return fail("site clause must assert or assume")
			}
			ss.IsAssume = kw == "assume"
			e, err := parseExpr(arg)
			if err != nil {
				return fail("%v", err)
			}
			ss.Clause = &Clause{Kind: "site", Text: arg, E: e, N: len(cur.Sites) + 1, Label: label}
			if l, ps, ok := strings.Cut(label, ":"); ok {
				// at[name:C01,C03]: this site obligation serves only the listed properties
				ss.Clause.Label = l
				ss.Clause.Props = strings.Split(ps, ",")
			}
			cur.Sites = append(cur.Sites, ss)
		case "invariant":
			// invariant Node as inv(sn): expr   |  (continuation lines add clauses with 'invariant' again)
			hd, body, ok := strings.Cut(rest, ":")
			if !ok {
				return fail("invariant needs 'invariant T as name(x): e'")
			}
			fs := strings.Fields(hd)
			if len(fs) != 3 || fs[1] != "as" {
				return fail("bad invariant header %q", hd)
			}
			v := "self"
			if i := strings.Index(fs[2], "("); i >= 0 {
				v = strings.TrimSuffix(fs[2][i+1:], ")")
			}
			key := pkg + "." + fs[0]
			ti := cs.TypeInvs[key]
			if ti == nil {
				ti = &TypeInv{Type: key, Var: v}
				cs.TypeInvs[key] = ti
			}
			e, err := parseExpr(strings.TrimSpace(body))
			if err != nil {
				return fail("%v", err)
			}
			ti.Clauses = append(ti.Clauses, &Clause{Kind: "inv", Text: strings.TrimSpace(body), E: e, N: len(ti.Clauses) + 1, Label: label})
			cur, curInv, curLemma = nil, ti, nil
		case "global":
			e, err := parseExpr(rest)
			if err != nil {
				return fail("%v", err)
			}
			cs.GlobalInvs = append(cs.GlobalInvs, &GlobalInv{Pkg: pkg, Clause: &Clause{Kind: "global", Text: rest, E: e, Label: label}})
			cs.Assumed = append(cs.Assumed, "global assumption ("+pkg+"): "+rest)
		case "lemma":
			// lemma name(x int, y int)
			name, params, _ := strings.Cut(rest, "(")
			params = strings.TrimSuffix(strings.TrimSpace(params), ")")
			lm := &Lemma{Name: pkg + "." + strings.TrimSpace(name)}
			for _, pstr := range splitTop(params, ',') {
				f := strings.Fields(pstr)
				if len(f) == 2 {
					lm.Vars = append(lm.Vars, QVar{f[0], f[1]})
				}
			}
			cs.Lemmas = append(cs.Lemmas, lm)
			cur, curInv, curLemma = nil, nil, lm
		case "hyp", "concl":
			if curLemma == nil {
				return fail("%s outside lemma", word)
			}
			e, err := parseExpr(rest)
			if err != nil {
				return fail("%v", err)
			}
			c := &Clause{Kind: word, Text: rest, E: e}
			if word == "hyp" {
				curLemma.Hyps = append(curLemma.Hyps, c)
			} else {
				c.N = len(curLemma.Concl) + 1
				curLemma.Concl = append(curLemma.Concl, c)
			}
		default:
			return fail("unknown contract keyword %q", word)
		}
	}
	for _, f := range cs.Funcs {
		if f.Trusted != "" && f.File == path {
			cs.Assumed = append(cs.Assumed, "assumed contract "+f.Key+" ("+f.Trusted+")")
		}
	}
	return nil
}

// parseResultNames extracts result names from the tail of a func header:
// "(a, b T) (res Quantity, err error)" -> [res err]; "(a T) bool" -> [].
func parseResultNames(tail string) []string {
	tail = strings.TrimSpace(tail)
	if !strings.HasPrefix(tail, "(") {
		return nil
	}
	// skip the parameter list
	depth := 0
	end := -1
	for i, c := range tail {
		if c == '(' {
			depth++
		} else if c == ')' {
			depth--
			if depth == 0 {
				end = i
				break
			}
		}
	}
	if end < 0 {
		return nil
	}
	rest := strings.TrimSpace(tail[end+1:])
	if !strings.HasPrefix(rest, "(") || !strings.HasSuffix(rest, ")") {
		return nil
	}
	rest = rest[1 : len(rest)-1]
	var names []string
	for _, part := range splitTop(rest, ',') {
		f := strings.Fields(part)
		if len(f) >= 1 {
			names = append(names, f[0])
		}
	}
	return names
}

func parseSpecFunc(s string) (*SpecFunc, error) {
	// [rec] name(x T, y U) R = body
	rec := false
	if strings.HasPrefix(s, "rec ") {
		rec = true
		s = strings.TrimSpace(s[4:])
	}
	abstract := false
	if strings.HasPrefix(s, "abstract ") {
		abstract = true
		s = strings.TrimSpace(s[9:]) + " = true"
	}
	hd, body, ok := strings.Cut(s, "=")
	// careful: '=' may appear in '==' inside the body but the header has none
	if !ok {
		return nil, fmt.Errorf("spec function needs '= body'")
	}
	name, rest, ok := strings.Cut(hd, "(")
	if !ok {
		return nil, fmt.Errorf("spec function needs parameters")
	}
	ps, ret, ok := strings.Cut(rest, ")")
	if !ok {
		return nil, fmt.Errorf("bad spec header")
	}
	sf := &SpecFunc{Name: strings.TrimSpace(name), RetType: strings.TrimSpace(ret), Text: s, Rec: rec, Abstract: abstract}
	for _, p := range splitTop(ps, ',') {
		f := strings.Fields(p)
		if len(f) == 2 {
			sf.Params = append(sf.Params, QVar{f[0], f[1]})
		} else if len(f) != 0 {
			return nil, fmt.Errorf("bad spec parameter %q", p)
		}
	}
	e, err := parseExpr(strings.TrimSpace(body))
	if err != nil {
		return nil, err
	}
	sf.Body = e
	return sf, nil
}
