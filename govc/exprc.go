package main

import (
	"fmt"
	"go/types"
	"strings"

	"golang.org/x/tools/go/ssa"
)

// Val is a compiled contract (sub)expression.
type Val struct {
	T  string     // SMT term
	S  string     // SMT sort
	Ty types.Type // Go type when known (nil for mathematical values)
}

// Env is the evaluation context of a contract expression.
type Env struct {
	vc     *VC
	st     *State // "now"
	old    *State // entry state for old()
	vars   map[string]Val
	pkg    *types.Package
	bound  int // >0 while under a quantifier
	seen   func(k Val) (string, error)
	depth  int
	trig   *[]string // triggers collected while compiling the body of the innermost quantifier
	iterSt *State    // explicit loop-head state for iter() (loop 'each' clauses); nil: innermost loop of the current block
}

func (e *Env) with(name string, v Val) *Env {
	n := *e
	n.vars = make(map[string]Val, len(e.vars)+1)
	for k, x := range e.vars {
		n.vars[k] = x
	}
	n.vars[name] = v
	return &n
}

func (e *Env) at(st *State) *Env {
	n := *e
	n.st = st
	return &n
}

type compileErr struct{ msg string }

func (c compileErr) Error() string { return c.msg }

func cfail(f string, a ...any) { panic(compileErr{fmt.Sprintf(f, a...)}) }

func (env *Env) compileBool(e Expr) (t string, err error) {
	defer func() {
		if r := recover(); r != nil {
			if ce, ok := r.(compileErr); ok {
				err = fmt.Errorf("%s (in %s)", ce.msg, e.String())
				return
			}
			panic(r)
		}
	}()
	v := env.c(e)
	if v.S != "Bool" {
		cfail("expression is not boolean (sort %s)", v.S)
	}
	return v.T, nil
}

func (env *Env) compileVal(e Expr) (v Val, err error) {
	defer func() {
		if r := recover(); r != nil {
			if ce, ok := r.(compileErr); ok {
				err = fmt.Errorf("%s (in %s)", ce.msg, e.String())
				return
			}
			panic(r)
		}
	}()
	return env.c(e), nil
}

func (env *Env) lookupType(name string) (types.Type, string) {
	vc := env.vc
	if strings.HasPrefix(name, "[]") {
		et, _ := env.lookupType(name[2:])
		if et == nil {
			switch name[2:] {
			case "int":
				et = types.Typ[types.Int]
			case "bool":
				et = types.Typ[types.Bool]
			default:
				cfail("unknown element type in %s", name)
			}
		}
		return types.NewSlice(et), "Int"
	}
	ptr := false
	if strings.HasPrefix(name, "*") {
		ptr = true
		name = name[1:]
	}
	switch name {
	case "int", "Int":
		return nil, "Int"
	case "bool":
		return nil, "Bool"
	case "Key", "string", "Str":
		return types.Typ[types.String], "Str"
	case "Ref":
		return nil, "Int"
	case "real", "float64":
		return types.Typ[types.Float64], vc.floatSort()
	}
	pkg := env.pkg
	if i := strings.Index(name, "."); i >= 0 {
		pn := name[:i]
		name = name[i+1:]
		found := false
		for _, p := range vc.w.Pkgs {
			_ = p
		}
		for path, sp := range vc.w.SSAPkgs {
			if sp.Pkg.Name() == pn && (strings.HasPrefix(path, modulePath) || !found) {
				pkg = sp.Pkg
				found = true
				if strings.HasPrefix(path, modulePath) {
					break
				}
			}
		}
		if !found {
			cfail("unknown package %s", pn)
		}
	}
	obj := pkg.Scope().Lookup(name)
	tn, ok := obj.(*types.TypeName)
	if !ok {
		// a spec function declared in another package names its parameter types unqualified: take the type if exactly one
		// package of the module declares it
		var cands []*types.TypeName
		for path, sp := range vc.w.SSAPkgs {
			if !strings.HasPrefix(path, modulePath) {
				continue
			}
			if c, ok := sp.Pkg.Scope().Lookup(name).(*types.TypeName); ok {
				cands = append(cands, c)
			}
		}
		if len(cands) != 1 {
			cfail("unknown type %s", name)
		}
		tn = cands[0]
	}
	var t types.Type = tn.Type()
	if ptr {
		t = types.NewPointer(t)
	}
	return t, vc.sortOf(t)
}

func mathInt(t string) Val { return Val{T: t, S: "Int"} }
func boolVal(t string) Val { return Val{T: t, S: "Bool"} }

func (env *Env) c(e Expr) Val {
	vc := env.vc
	switch x := e.(type) {
	case *EInt:
		return mathInt(smtIntS(x.Val))
	case *EStr:
		return Val{T: vc.strLit(x.Val), S: "Str", Ty: types.Typ[types.String]}
	case *EBool:
		if x.Val {
			return boolVal("true")
		}
		return boolVal("false")
	case *ENil:
		return Val{T: "0", S: "Int"}
	case *EIdent:
		if v, ok := env.vars[x.Name]; ok {
			return v
		}
		switch x.Name {
		case "MaxInt64":
			return mathInt("9223372036854775807")
		case "MinInt64":
			return mathInt("(- 9223372036854775808)")
		case "MaxInt32":
			return mathInt("2147483647")
		case "MinInt32":
			return mathInt("(- 2147483648)")
		}
		// package-level constant or variable
		if obj := env.pkg.Scope().Lookup(x.Name); obj != nil {
			switch o := obj.(type) {
			case *types.Const:
				return vc.constVal(o.Val(), o.Type())
			case *types.Var:
				comp := "G_" + o.Pkg().Name() + "_" + o.Name()
				s := vc.sortOf(o.Type())
				return Val{T: vc.heapGet(env.st, comp, s), S: s, Ty: o.Type()}
			}
		}
		cfail("unknown identifier %s", x.Name)
	case *ESel:
		// pkg.Const / pkg.Var
		if id, ok := x.X.(*EIdent); ok {
			if _, isVar := env.vars[id.Name]; !isVar && env.pkg.Scope().Lookup(id.Name) == nil {
				for _, imp := range env.pkg.Imports() {
					if imp.Name() == id.Name {
						obj := imp.Scope().Lookup(x.Sel)
						switch o := obj.(type) {
						case *types.Const:
							return vc.constVal(o.Val(), o.Type())
						case *types.Var:
							comp := "G_" + o.Pkg().Name() + "_" + o.Name()
							s := vc.sortOf(o.Type())
							return Val{T: vc.heapGet(env.st, comp, s), S: s, Ty: o.Type()}
						}
						cfail("unknown member %s.%s", id.Name, x.Sel)
					}
				}
			}
		}
		base := env.c(x.X)
		return env.field(base, x.Sel)
	case *EIndex:
		base := env.c(x.X)
		idx := env.c(x.I)
		if base.Ty == nil {
			cfail("cannot index a value of unknown type")
		}
		switch u := base.Ty.Underlying().(type) {
		case *types.Map:
			dom, val, ks, vs := vc.mapComps(u)
			d := vc.heapGet(env.st, dom, "(Array Int (Array "+ks+" Bool))")
			v := vc.heapGet(env.st, val, "(Array Int (Array "+ks+" "+vs+"))")
			in := sx("and", sx("not", sx("=", base.T, "0")), sx("select", sx("select", d, base.T), idx.T))
			return Val{T: smtIte(in, rangeCoerce(sx("select", sx("select", v, base.T), idx.T), u.Elem()), vc.zeroOf(u.Elem())), S: vs, Ty: u.Elem()}
		case *types.Slice:
			comp, es := vc.elemComp(u.Elem())
			el := vc.heapGet(env.st, comp, "(Array Int (Array Int "+es+"))")
			return Val{T: rangeCoerce(sx("select", sx("select", el, sx("sbase", base.T)), sx("+", sx("soff", base.T), idx.T)), u.Elem()), S: es, Ty: u.Elem()}
		}
		cfail("cannot index type %s", base.Ty)
	case *EUn:
		v := env.c(x.X)
		switch x.Op {
		case "!":
			return boolVal(smtNot(v.T))
		case "-":
			if v.S == "Real" {
				return Val{T: sx("-", v.T), S: "Real"}
			}
			return mathInt(sx("-", v.T))
		}
	case *EBin:
		return env.bin(x)
	case *ECond:
		c := env.c(x.C)
		a := env.c(x.A)
		b := env.c(x.B)
		ty := a.Ty
		if ty == nil {
			ty = b.Ty
		}
		return Val{T: smtIte(c.T, a.T, b.T), S: a.S, Ty: ty}
	case *EQuant:
		n := *env
		n.vars = make(map[string]Val, len(env.vars)+len(x.Vars))
		for k, v := range env.vars {
			n.vars[k] = v
		}
		n.bound++
		var bs []string
		for _, qv := range x.Vars {
			ty, s := env.lookupType(qv.Type)
			name := vc.fresh("q_" + qv.Name)
			n.vars[qv.Name] = Val{T: name, S: s, Ty: ty}
			bs = append(bs, "("+name+" "+s+")")
		}
		var trig []string
		n.trig = &trig
		body := n.c(x.Body)
		// bound variables of reference type range over the objects that existed in the old (entry / pre-call) state
		var guards []string
		for _, qv := range x.Vars {
			v := n.vars[qv.Name]
			if v.Ty != nil && isRefType(v.Ty) {
				guards = append(guards, sx("<=", v.T, env.old.allocTop))
			}
		}
		if len(guards) > 0 {
			if x.Forall {
				body.T = smtImp(smtAnd(guards...), body.T)
			} else {
				body.T = smtAnd(append(guards, body.T)...)
			}
		}
		q := "exists"
		if x.Forall {
			q = "forall"
		}
		if len(trig) > 0 && x.Forall {
			// every bound variable must occur in the pattern set
			all := true
			for _, b := range bs {
				name := strings.Fields(strings.Trim(b, "()"))[0]
				found := false
				for _, t := range trig {
					if strings.Contains(t, name) {
						found = true
					}
				}
				all = all && found
			}
			if all {
				var pats []string
				seenP := map[string]bool{}
				for _, t := range trig {
					if !seenP[t] {
						seenP[t] = true
						pats = append(pats, ":pattern ("+t+")")
					}
				}
				return boolVal("(" + q + " (" + strings.Join(bs, " ") + ") (! " + body.T + " " + strings.Join(pats, " ") + "))")
			}
		}
		return boolVal("(" + q + " (" + strings.Join(bs, " ") + ") " + body.T + ")")
	case *ELet:
		v := env.c(x.Val)
		return env.with(x.Name, v).c(x.Body)
	case *ECall:
		return env.call(x)
	}
	cfail("cannot compile %s", e.String())
	return Val{}
}

func (vc *VC) constVal(v interface{ String() string }, t types.Type) Val {
	s := vc.sortOf(t)
	str := v.String()
	switch s {
	case "Int":
		return Val{T: smtIntS(str), S: "Int", Ty: t}
	case "Bool":
		return boolVal(str)
	case "Str":
		if len(str) >= 2 && str[0] == '"' {
			var u string
			fmt.Sscanf(str, "%q", &u)
			return Val{T: vc.strLit(u), S: "Str", Ty: t}
		}
	}
	cfail("unsupported constant %s", str)
	return Val{}
}

func (env *Env) field(base Val, sel string) Val {
	vc := env.vc
	if base.Ty == nil {
		cfail("selecting .%s from a value of unknown type", sel)
	}
	t := base.Ty
	if p, ok := t.Underlying().(*types.Pointer); ok {
		t = p.Elem()
	}
	st, ok := t.Underlying().(*types.Struct)
	if !ok {
		cfail(".%s: %s is not a struct", sel, t)
	}
	for i := 0; i < st.NumFields(); i++ {
		f := st.Field(i)
		if f.Name() == sel {
			comp, sort, _ := vc.fieldCompOf(t, i)
			if isStructLike(f.Type()) {
				// nested struct stored in place: the same sub-object ref the translation of the code uses
				fn := vc.subFun(comp)
				return Val{T: sx(fn, base.T), S: "Int", Ty: f.Type()}
			}
			arr := vc.heapGet(env.st, comp, sort)
			return Val{T: rangeCoerce(sx("select", arr, base.T), f.Type()), S: vc.sortOf(f.Type()), Ty: f.Type()}
		}
	}
	// ghost field?
	if gf, ok := vc.cs.ghostField(typeName(t), sel); ok {
		arr := vc.heapGet(env.st, gf.comp, "(Array Int "+gf.sort+")")
		return Val{T: sx("select", arr, base.T), S: gf.sort}
	}
	// promoted through embedded fields
	for i := 0; i < st.NumFields(); i++ {
		f := st.Field(i)
		if f.Embedded() {
			comp, sort, _ := vc.fieldCompOf(t, i)
			arr := vc.heapGet(env.st, comp, sort)
			inner := Val{T: sx("select", arr, base.T), S: "Int", Ty: f.Type()}
			if _, isPtr := f.Type().Underlying().(*types.Pointer); isPtr {
				func() {
					defer func() { recover() }()
				}()
				return env.field(inner, sel)
			}
		}
	}
	cfail("target-exists: type %s has no field %s", t, sel)
	return Val{}
}

type ghostField struct{ comp, sort string }

func (cs *Contracts) ghostField(tn, sel string) (ghostField, bool) { return ghostField{}, false }

func (env *Env) bin(x *EBin) Val {
	if x.Op == "in" {
		k := env.c(x.L)
		m := env.c(x.R)
		mt, ok := m.Ty.Underlying().(*types.Map)
		if m.Ty == nil || !ok {
			cfail("'in' needs a map on the right")
		}
		dom, _, ks, _ := env.vc.mapComps(mt)
		d := env.vc.heapGet(env.st, dom, "(Array Int (Array "+ks+" Bool))")
		return boolVal(sx("and", sx("not", sx("=", m.T, "0")), sx("select", sx("select", d, m.T), k.T)))
	}
	l := env.c(x.L)
	r := env.c(x.R)
	isReal := l.S == "Real" || r.S == "Real"
	if isReal {
		if l.S == "Int" {
			l = Val{T: sx("to_real", l.T), S: "Real"}
		}
		if r.S == "Int" {
			r = Val{T: sx("to_real", r.T), S: "Real"}
		}
	}
	fp := strings.HasPrefix(l.S, "(_ FloatingPoint")
	switch x.Op {
	case "&&":
		return boolVal(smtAnd(l.T, r.T))
	case "||":
		return boolVal(smtOr(l.T, r.T))
	case "==>":
		return boolVal(smtImp(l.T, r.T))
	case "<==>":
		return boolVal(sx("=", l.T, r.T))
	case "==":
		if l.S != r.S {
			cfail("comparing different sorts %s and %s", l.S, r.S)
		}
		if fp {
			return boolVal(sx("fp.eq", l.T, r.T))
		}
		return boolVal(sx("=", l.T, r.T))
	case "!=":
		if l.S != r.S {
			cfail("comparing different sorts %s and %s", l.S, r.S)
		}
		if fp {
			return boolVal(sx("not", sx("fp.eq", l.T, r.T)))
		}
		return boolVal(sx("not", sx("=", l.T, r.T)))
	case "<", "<=", ">", ">=":
		if l.S == "Str" && r.S == "Str" {
			switch x.Op {
			case "<":
				return boolVal(sx("str_lt", l.T, r.T))
			case ">":
				return boolVal(sx("str_lt", r.T, l.T))
			case "<=":
				return boolVal(sx("not", sx("str_lt", r.T, l.T)))
			default:
				return boolVal(sx("not", sx("str_lt", l.T, r.T)))
			}
		}
		if fp {
			return boolVal(sx(map[string]string{"<": "fp.lt", "<=": "fp.leq", ">": "fp.gt", ">=": "fp.geq"}[x.Op], l.T, r.T))
		}
		return boolVal(sx(x.Op, l.T, r.T))
	case "+", "-", "*":
		s := "Int"
		if isReal {
			s = "Real"
		}
		return Val{T: sx(x.Op, l.T, r.T), S: s}
	case "/":
		if isReal {
			return Val{T: sx("/", l.T, r.T), S: "Real"}
		}
		return mathInt(sx("tdiv", l.T, r.T))
	case "%":
		return mathInt(sx("tmod", l.T, r.T))
	}
	cfail("unknown operator %s", x.Op)
	return Val{}
}

var resourceType *types.Named

func (vc *VC) resourceNamed() *types.Named {
	if resourceType != nil {
		return resourceType
	}
	sp := vc.w.SSAPkgs[modulePath+"/pkg/common/resources"]
	if sp == nil {
		cfail("resources package not loaded")
	}
	resourceType = sp.Pkg.Scope().Lookup("Resource").Type().(*types.Named)
	return resourceType
}

// resMap returns the map ref of r.Resources in state st.
func (vc *VC) resMap(st *State, r string) string {
	rt := vc.resourceNamed()
	comp, sort, _ := vc.fieldCompOf(rt, 0)
	return sx("select", vc.heapGet(st, comp, sort), r)
}

func (vc *VC) resHas(st *State, r, t string) string {
	m := vc.resMap(st, r)
	d := vc.heapGet(st, "Mdom_string_resources_Quantity", "(Array Int (Array Str Bool))")
	return sx("and", sx("not", sx("=", r, "0")), sx("not", sx("=", m, "0")), sx("select", sx("select", d, m), t))
}

func (vc *VC) resVal(st *State, r, t string) string {
	m := vc.resMap(st, r)
	v := vc.heapGet(st, "Mval_string_resources_Quantity", "(Array Int (Array Str Int))")
	return smtIte(vc.resHas(st, r, t), sx("clamp64", sx("select", sx("select", v, m), t)), "0")
}

// rangeCoerce clamps an integer read from the heap inside a contract expression into the range of its
// Go type. Every value stored in the heap is inside that range (Go's type system), so this is the identity
// on real states; it spares the solver a quantified "all stored values are in range" axiom.
func rangeCoerce(x string, t types.Type) string {
	b := basicOf(t)
	if b == nil || b.Info()&types.IsInteger == 0 {
		return x
	}
	lo, hi, _, ok := intRange(b)
	if !ok {
		return x
	}
	return sx("imax", smtInt(lo), sx("imin", smtInt(hi), x))
}

func (env *Env) call(x *ECall) Val {
	vc := env.vc
	arg := func(i int) Val {
		if i >= len(x.Args) {
			cfail("%s: missing argument %d", x.Fun, i+1)
		}
		return env.c(x.Args[i])
	}
	switch x.Fun {
	case "old":
		n := env.at(env.old)
		// identifiers naming locals refer to entry values under old(): vars map holds entry values under "old:"+name
		n.vars = make(map[string]Val, len(env.vars))
		for k, v := range env.vars {
			n.vars[k] = v
		}
		for k, v := range env.vars {
			if strings.HasPrefix(k, "old:") {
				n.vars[strings.TrimPrefix(k, "old:")] = v
			}
		}
		return n.c(x.Args[0])
	case "ndone":
		// number of times loop N (source order) was left through its head so far (range exhausted / condition false)
		if len(x.Args) != 1 {
			cfail("ndone() takes a loop ordinal")
		}
		return mathInt(vc.heapGet(env.st, "N_loopdone_"+x.Args[0].String(), "Int"))
	case "nsends":
		// number of channel sends executed so far by the function under contract itself
		return mathInt(vc.heapGet(env.st, "N_send", "Int"))
	case "ncalls":
		// number of calls of the named function executed so far by the function under contract itself
		if len(x.Args) != 1 {
			cfail("ncalls() takes a function key")
		}
		return mathInt(vc.heapGet(env.st, "N_"+sanitize(x.Args[0].String()), "Int"))
	case "iter":
		// the value of the expression at the head of the innermost enclosing loop (start of the current iteration)
		if len(x.Args) != 1 {
			cfail("iter() takes one argument")
		}
		its := env.iterSt
		if its == nil {
			its = vc.iterState()
		}
		if its == nil {
			cfail("iter() outside a loop")
		}
		// locals declared outside the loop (their cell already existed at the loop head) take their value at the start of
		// the iteration; locals declared inside the body keep their current value
		n := env.at(its)
		n.vars = make(map[string]Val, len(env.vars))
		for k, v := range env.vars {
			n.vars[k] = v
		}
		for name, a := range vc.localCells(env.st) {
			if hv, ok := its.cells[a]; ok {
				ty := a.Type().(*types.Pointer).Elem()
				n.vars[name] = Val{T: hv, S: vc.sortOf(ty), Ty: ty}
			}
		}
		return n.c(x.Args[0])
	case "has":
		return boolVal(vc.resHas(env.st, arg(0).T, arg(1).T))
	case "rv":
		return mathInt(vc.resVal(env.st, arg(0).T, arg(1).T))
	case "int":
		v := arg(0)
		if v.S == "Real" {
			cfail("int() of a float")
		}
		return mathInt(v.T)
	case "min":
		return mathInt(sx("imin", arg(0).T, arg(1).T))
	case "max":
		return mathInt(sx("imax", arg(0).T, arg(1).T))
	case "unbox", "hastype", "asptr":
		// unbox(x, T): the struct value of type T stored in interface value x; hastype(x, T): x holds a value of type T
		if len(x.Args) != 2 {
			cfail("%s(x, Type)", x.Fun)
		}
		xv := arg(0)
		if x.Fun == "asptr" {
			// asptr(x, T): the *T held by interface value x (the interface value of a pointer is the pointer itself)
			pn, ok := x.Args[1].(*EIdent)
			if !ok {
				cfail("%s: second argument must be a type name", x.Fun)
			}
			pty, _ := env.lookupType("*" + pn.Name)
			if pty == nil {
				cfail("%s: unknown type *%s", x.Fun, pn.Name)
			}
			return Val{T: xv.T, S: "Int", Ty: pty}
		}
		tn, ok := x.Args[1].(*EIdent)
		if !ok {
			cfail("%s: second argument must be a type name", x.Fun)
		}
		ty, srt := env.lookupType(tn.Name)
		if ty == nil {
			cfail("%s: unknown type %s", x.Fun, tn.Name)
		}
		if x.Fun == "hastype" {
			return boolVal(sx("and", sx("not", sx("=", xv.T, "0")), sx("=", sx("dyntype", xv.T), vc.typeTag(ty))))
		}
		f := vc.declareFun("unbox_"+sanitize(srt), []string{"Int"}, srt)
		return Val{T: sx(f, xv.T), S: srt, Ty: ty}
	case "anc":
		// anc(x, q): q is x or one of its ancestors along the declared acyclic parent link
		xv, qv := arg(0), arg(1)
		t := vc.ancTerm(env.st, xv, qv.T)
		if env.trig != nil && env.bound > 0 {
			*env.trig = append(*env.trig, t)
		}
		return boolVal(t)
	case "mod":
		return mathInt(sx("mod", arg(0).T, arg(1).T))
	case "div":
		return mathInt(sx("div", arg(0).T, arg(1).T))
	case "abs":
		return mathInt(sx("iabs", arg(0).T))
	case "wrap64":
		// two's complement reduction into the int64 range (what the machine computes for + - on int64)
		return mathInt(sx("+", sx("mod", sx("+", arg(0).T, "9223372036854775808"), "18446744073709551616"), "(- 9223372036854775808)"))
	case "clamp64":
		return mathInt(sx("clamp64", arg(0).T))
	case "fresh":
		v := arg(0)
		return boolVal(sx(">", v.T, env.old.allocTop))
	case "len":
		v := arg(0)
		if v.Ty == nil {
			cfail("len of unknown type")
		}
		switch u := v.Ty.Underlying().(type) {
		case *types.Map:
			dom, _, ks, _ := vc.mapComps(u)
			d := vc.heapGet(env.st, dom, "(Array Int (Array "+ks+" Bool))")
			card := vc.cardFun(ks)
			return mathInt(smtIte(sx("=", v.T, "0"), "0", sx(card, sx("select", d, v.T))))
		case *types.Slice:
			return mathInt(sx("slen", v.T))
		case *types.Basic:
			return mathInt(sx("str_len", v.T))
		}
		cfail("len of %s", v.Ty)
	case "seen":
		if env.seen == nil {
			cfail("seen() is only available in invariants of map-range loops")
		}
		t, err := env.seen(arg(0))
		if err != nil {
			cfail("%v", err)
		}
		return boolVal(t)
	case "unch":
		// the resource object and the contents of its map are what they were at entry
		r := arg(0)
		m0 := vc.resMap(env.old, r.T)
		m1 := vc.resMap(env.st, r.T)
		d0 := vc.heapGet(env.old, "Mdom_string_resources_Quantity", "(Array Int (Array Str Bool))")
		d1 := vc.heapGet(env.st, "Mdom_string_resources_Quantity", "(Array Int (Array Str Bool))")
		v0 := vc.heapGet(env.old, "Mval_string_resources_Quantity", "(Array Int (Array Str Int))")
		v1 := vc.heapGet(env.st, "Mval_string_resources_Quantity", "(Array Int (Array Str Int))")
		return boolVal(sx("=>", sx("not", sx("=", r.T, "0")), sx("and", sx("=", m0, m1),
			sx("=", sx("select", d0, m0), sx("select", d1, m0)), sx("=", sx("select", v0, m0), sx("select", v1, m0)))))
	case "isNaN":
		v := arg(0)
		if strings.HasPrefix(v.S, "(_ FloatingPoint") {
			return boolVal(sx("fp.isNaN", v.T))
		}
		return boolVal("false")
	case "f64":
		v := arg(0)
		if vc.spec != nil && vc.spec.FloatFP {
			return Val{T: sx("(_ to_fp 11 53) RNE", v.T), S: vc.floatSort()}
		}
		return Val{T: sx("i2f", v.T), S: "Real"}
	}
	if x.Fun == "inv" || strings.HasPrefix(x.Fun, "inv_") {
		// inv(x): conjunction of the clauses of x's type invariant; inv_label(x): one labelled clause
		v := arg(0)
		ti := vc.typeInvOf(v.Ty)
		if ti == nil {
			cfail("inv(): no invariant declared for type %v", v.Ty)
		}
		var parts []string
		for _, c := range ti.Clauses {
			if x.Fun != "inv" && "inv_"+c.Label != x.Fun {
				continue
			}
			n := env.with(ti.Var, v)
			n.depth++
			parts = append(parts, n.c(c.E).T)
		}
		if len(parts) == 0 {
			cfail("%s: no such invariant clause", x.Fun)
		}
		return boolVal(smtAnd(parts...))
	}
	if sf, ok := vc.cs.Specs[x.Fun]; ok && sf.Abstract {
		// uninterpreted spec function (a ghost token / oracle): heap independent
		if len(x.Args) != len(sf.Params) {
			cfail("spec function %s takes %d arguments", sf.Name, len(sf.Params))
		}
		var sorts, ts []string
		for i, p := range sf.Params {
			v := env.c(x.Args[i])
			_, s := env.lookupType(p.Type)
			if v.S != s {
				cfail("spec function %s: argument %d has sort %s, want %s", sf.Name, i+1, v.S, s)
			}
			sorts = append(sorts, s)
			ts = append(ts, v.T)
		}
		rty, rs := env.lookupType(sf.RetType)
		f := vc.declareFun("spec_"+sf.Name, sorts, rs)
		if len(ts) == 0 {
			return Val{T: f, S: rs, Ty: rty}
		}
		return Val{T: sx(f, ts...), S: rs, Ty: rty}
	}
	if sf, ok := vc.cs.Specs[x.Fun]; ok {
		if len(x.Args) != len(sf.Params) {
			cfail("spec function %s takes %d arguments", sf.Name, len(sf.Params))
		}
		if env.depth > 40 {
			cfail("spec function expansion too deep (recursive?) at %s", sf.Name)
		}
		n := *env
		n.depth++
		n.vars = make(map[string]Val, len(env.vars)+len(sf.Params))
		for k, v := range env.vars {
			n.vars[k] = v
		}
		for i, p := range sf.Params {
			v := env.c(x.Args[i])
			ty, s := env.lookupType(p.Type)
			if v.S != s {
				cfail("spec function %s: argument %d has sort %s, want %s", sf.Name, i+1, v.S, s)
			}
			if ty != nil {
				v.Ty = ty
			}
			n.vars[p.Name] = v
		}
		r := n.c(sf.Body)
		return r
	}
	cfail("unknown spec function %s", x.Fun)
	return Val{}
}

// typeInvOf finds the declared invariant of (pointer to) named type t.
func (vc *VC) typeInvOf(t types.Type) *TypeInv {
	if t == nil {
		return nil
	}
	if p, ok := t.Underlying().(*types.Pointer); ok {
		t = p.Elem()
	}
	n, ok := types.Unalias(t).(*types.Named)
	if !ok || n.Obj().Pkg() == nil {
		return nil
	}
	return vc.cs.TypeInvs[n.Obj().Pkg().Name()+"."+n.Obj().Name()]
}

// iterState is the state at the head of the innermost loop whose body contains the block being executed.
func (vc *VC) iterState() *State {
	var best *loopInfo
	for _, li := range vc.loops {
		if li.headState == nil || !li.body[vc.curBlock] {
			continue
		}
		if best == nil || len(li.body) < len(best.body) {
			best = li
		}
	}
	if best == nil {
		return nil
	}
	return best.headState
}

func (vc *VC) cardFun(ks string) string {
	name := "card_" + sanitize(ks)
	if _, ok := vc.decl[name]; !ok {
		vc.declareFun(name, []string{"(Array " + ks + " Bool)"}, "Int")
		vc.emit(fmt.Sprintf("(assert (forall ((a (Array %s Bool))) (! (and (>= (%s a) 0) (<= (%s a) 4611686018427387904)) :pattern ((%s a)))))", ks, name, name, name))
		vc.emit(fmt.Sprintf("(assert (= (%s ((as const (Array %s Bool)) false)) 0))", name, ks))
		vc.emit(fmt.Sprintf("(assert (forall ((a (Array %s Bool)) (k %s)) (! (=> (select a k) (> (%s a) 0)) :pattern ((select a k) (%s a)))))", ks, ks, name, name))
	}
	return name
}

// localEnvVars adds the current values of named local cells to vars.
func (vc *VC) localCells(st *State) map[string]*ssa.Alloc {
	best := map[string]*ssa.Alloc{}
	for a := range st.cells {
		n := a.Comment
		if n == "" || strings.Contains(n, "$") || vc.inlineAllocs[a] {
			continue
		}
		// several cells can share a name (shadowing, the hidden rangeindex of each loop): the one allocated last wins
		if cur, ok := best[n]; !ok || vc.allocSeq[a] > vc.allocSeq[cur] {
			best[n] = a
		}
	}
	return best
}

func (vc *VC) localVars(st *State, vars map[string]Val, before ssa.Instruction) {
	best := vc.localCells(st)
	for n, a := range best {
		ty := a.Type().(*types.Pointer).Elem()
		vars[n] = Val{T: st.cells[a], S: vc.sortOf(ty), Ty: ty}
	}
	for n, v := range vc.namedObjs {
		if _, shadowed := best[n]; !shadowed {
			// like scalar parameters (whose current value is their local cell), a struct parameter is read by the code
			// through its local copy: the name denotes that copy; old(name) still gives the entry value
			vars[n] = v
		}
	}
	for fv, t := range st.fcells {
		ty := fv.Type().(*types.Pointer).Elem()
		if _, shadowed := best[fv.Name()]; !shadowed {
			vars[fv.Name()] = Val{T: t, S: vc.sortOf(ty), Ty: ty}
		}
	}
}

// ancTerm builds inchain(P, x, q) for the parent-link array P of x's type in state st and emits, once per
// (P, x), the one-level unfolding at x together with the acyclicity facts (a depth function that strictly
// decreases along the link). Only the link array of the given state is read.
func (vc *VC) ancTerm(st *State, x Val, q string) string {
	t := x.Ty
	if t == nil {
		cfail("anc(): first argument has no Go type")
	}
	if p, ok := t.Underlying().(*types.Pointer); ok {
		t = p.Elem()
	}
	n, ok := types.Unalias(t).(*types.Named)
	if !ok || n.Obj().Pkg() == nil {
		cfail("anc(): %v is not a named struct pointer", x.Ty)
	}
	key := n.Obj().Pkg().Name() + "." + n.Obj().Name()
	fld, ok := vc.cs.Chains[key]
	if !ok {
		cfail("anc(): no 'chain %s.<field>' declaration", n.Obj().Name())
	}
	comp, ok := vc.fieldCompByName(t, fld)
	if !ok {
		cfail("target-exists: chain field %s.%s", key, fld)
	}
	P := vc.patSafe(vc.heapGet(st, comp, "(Array Int Int)"), "(Array Int Int)")
	x.T = vc.patSafe(x.T, "Int")
	in := vc.declareFun("inchain_"+sanitize(key), []string{"(Array Int Int)", "Int", "Int"}, "Bool")
	dp := vc.declareFun("depth_"+sanitize(key), []string{"(Array Int Int)", "Int"}, "Int")
	vc.assumedUse["acyclic parent chain "+key+"."+fld] = true
	if !vc.sumDefs["anc1|"+P] {
		vc.sumDefs["anc1|"+P] = true
		vc.emit(fmt.Sprintf("(assert (forall ((a Int) (o Int)) (! (=> (%s %s a o) (and (not (= a 0)) (not (= o 0)) (<= (%s %s o) (%s %s a)))) :pattern ((%s %s a o)))))", in, P, dp, P, dp, P, in, P))
	}
	k := "anc2|" + P + "|" + x.T
	if !vc.sumDefs[k] {
		vc.sumDefs[k] = true
		par := sx("select", P, x.T)
		vc.emit(fmt.Sprintf("(assert (forall ((o Int)) (! (= (%s %s %s o) (and (not (= %s 0)) (or (= o %s) (%s %s %s o)))) :pattern ((%s %s %s o)) :pattern ((%s %s %s o)))))",
			in, P, x.T, x.T, x.T, in, P, par, in, P, x.T, in, P, par))
		vc.emit(fmt.Sprintf("(assert (=> (and (not (= %s 0)) (not (= %s 0))) (< (%s %s %s) (%s %s %s))))", x.T, par, dp, P, par, dp, P, x.T))
	}
	return sx(in, P, x.T, q)
}

// patSafe returns a term usable inside a quantifier pattern: names introduced by define-fun are macros and may
// expand to terms with boolean structure, so they are aliased by a constant.
func (vc *VC) patSafe(t, sort string) string {
	if !vc.defined[t] && !strings.ContainsAny(t, " (") {
		return t
	}
	if a, ok := vc.patAlias[t]; ok {
		return a
	}
	a := vc.declare("alias", sort)
	vc.assert(sx("=", a, t))
	vc.patAlias[t] = a
	return a
}
