package main

import (
	"crypto/sha256"
	"encoding/json"
	"flag"
	"fmt"
	"go/types"
	"os"
	"path/filepath"
	"sort"
	"strconv"
	"strings"
	"sync"
	"time"

	"golang.org/x/tools/go/ssa"
)

const verifDir = "/verif"

// outDir / evidenceDir can be redirected (selftest runs against scratch copies must not touch the real evidence)
func outDir() string {
	if d := os.Getenv("VERIF_OUT"); d != "" {
		return d
	}
	return filepath.Join(verifDir, "out")
}

func evidenceDir() string {
	if d := os.Getenv("VERIF_EVIDENCE_DIR"); d != "" {
		return d
	}
	return filepath.Join(verifDir, "evidence")
}

type FuncReport struct {
	Key         string   `json:"function"`
	SourceHash  string   `json:"source_sha256"`
	Loops       int      `json:"loops"`
	Obligations int      `json:"obligations"`
	Trusted     string   `json:"trusted,omitempty"`
	Notes       []string `json:"abstractions,omitempty"`
	Unsupported []string `json:"unsupported,omitempty"`
	Error       string   `json:"error,omitempty"`
}

type runOpts struct {
	property   string
	tier       string
	seed       int
	only       string
	timeoutS   int
	jobs       int
	keepSMT    bool
	verbose    bool
	noFindings bool
}

func cmdMain(args []string) int {
	switch args[0] {
	case "verify":
		fs := flag.NewFlagSet("verify", flag.ExitOnError)
		var o runOpts
		fs.StringVar(&o.property, "property", "", "property id (C01..C20)")
		fs.StringVar(&o.tier, "tier", envOr("VERIF_TIER", "quick"), "quick|thorough")
		fs.StringVar(&o.only, "func", "", "only this function key (debug)")
		fs.IntVar(&o.timeoutS, "timeout", 0, "per-obligation timeout (s)")
		fs.IntVar(&o.jobs, "j", 16, "parallel solver jobs")
		fs.BoolVar(&o.verbose, "v", false, "verbose")
		fs.BoolVar(&o.noFindings, "no-known-findings", false, "do not apply the known-findings file (selftest)")
		fs.Parse(args[1:])
		o.seed, _ = strconv.Atoi(envOr("VERIF_SEED", "0"))
		if o.timeoutS == 0 {
			o.timeoutS = 30
			if o.tier == "thorough" {
				o.timeoutS = 60
			}
		}
		return verify(o)
	case "selfcheck":
		return selfcheck()
	case "replay":
		return replayCmd(args[1:])
	}
	fmt.Fprintln(os.Stderr, "unknown command", args[0])
	return 2
}

func envOr(k, d string) string {
	if v := os.Getenv(k); v != "" {
		return v
	}
	return d
}

func hasProp(ps []string, p string) bool {
	for _, x := range ps {
		if x == p {
			return true
		}
	}
	return false
}

func sourceHash(w *World, fn *ssa.Function) string {
	d := funcDecl(fn)
	if d == nil {
		return ""
	}
	p0, p1 := w.Fset.Position(d.Pos()), w.Fset.Position(d.End())
	data, err := os.ReadFile(p0.Filename)
	if err != nil || p1.Offset > len(data) {
		return ""
	}
	return fmt.Sprintf("%x", sha256.Sum256(data[p0.Offset:p1.Offset]))[:16]
}

// generate builds the obligations of every function serving the property.
func generate(w *World, cs *Contracts, ms *ModSets, o runOpts) ([]*Obligation, []*FuncReport, []string, map[string]bool) {
	var obls []*Obligation
	var reps []*FuncReport
	var fatal []string
	assumed := map[string]bool{}
	for _, key := range sortedKeys(cs.Funcs) {
		spec := cs.Funcs[key]
		if o.only != "" && key != o.only {
			continue
		}
		// a function serves the property if it, or one of its clauses, is tagged
		serves := hasProp(spec.Props, o.property) || o.property == ""
		if !serves {
			for _, c := range append(append([]*Clause{}, spec.Ensures...), spec.Requires...) {
				if hasProp(c.Props, o.property) {
					serves = true
				}
			}
		}
		if !serves {
			continue
		}
		rep := &FuncReport{Key: key, Trusted: spec.Trusted}
		reps = append(reps, rep)
		if spec.Trusted != "" {
			assumed["assumed contract "+key+" ("+spec.Trusted+")"] = true
			continue
		}
		fn := w.lookupFunc(key)
		if fn == nil {
			// the function under contract vanished: that is a violation of "target-exists"
			rep.Error = "function not found in the working tree"
			obls = append(obls, &Obligation{Name: key + ":target-exists", Kind: "target-exists", Func: key, Goal: "false", Props: spec.Props,
				Text: "the function under contract exists", Result: &SolveResult{Status: "sat", Output: "function " + key + " not found in /repo"}})
			continue
		}
		rep.SourceHash = sourceHash(w, fn)
		vc := newVC(w, cs, ms, fn, spec)
		vc.key = key // obligations are named after the contract key (stable for closures addressed by $calls)
		err := vc.run()
		rep.Loops = len(vc.loops)
		rep.Notes = sortedKeysB(vc.notes)
		rep.Unsupported = sortedKeysB(vc.unsupp)
		for a := range vc.assumedUse {
			assumed[a] = true
		}
		if err != nil {
			rep.Error = err.Error()
			fatal = append(fatal, err.Error())
			// a contract that no longer resolves against the code is reported as a failed obligation
			obls = append(obls, &Obligation{Name: key + ":translate", Kind: "translate", Func: key, Goal: "false", Props: spec.Props,
				Text:   "the contract resolves against the code and the body is inside the supported subset",
				Result: &SolveResult{Status: "error", Output: err.Error()}})
			continue
		}
		for _, ob := range vc.obls {
			ob.Cmds = vc.cmds[:ob.Pos]
			if o.property != "" && len(ob.Props) > 0 && !hasProp(ob.Props, o.property) {
				continue
			}
			obls = append(obls, ob)
			rep.Obligations++
		}
		if os.Getenv("GOVC_DUMP") != "" {
			os.MkdirAll(filepath.Join(outDir(), "ivl"), 0o755)
			os.WriteFile(filepath.Join(outDir(), "ivl", sanitize(key)+".smt2"), []byte(strings.Join(vc.cmds, "\n")), 0o644)
		}
	}
	// writer closure of type invariants: invariants are assumed at entry of functions (holds) under visible-state
	// semantics, so every function that directly writes a field the invariant mentions must itself be under a
	// contract that re-establishes the invariant (constructors writing a fresh object are exempt)
	for _, tkey := range sortedKeys(cs.TypeInvs) {
		ti := cs.TypeInvs[tkey]
		props := ti.Props
		if len(props) == 0 {
			for _, c := range ti.Clauses {
				props = append(props, c.Props...)
			}
		}
		if ms == nil || o.only != "" {
			continue
		}
		serves := invServes(cs, tkey, o.property)
		if !serves {
			continue
		}
		parts := strings.SplitN(tkey, ".", 2)
		fields := map[string]bool{}
		for _, c := range ti.Clauses {
			collectFields(c.E, ti.Var, fields)
		}
		var missing []string
		for _, f := range sortedKeysB(fields) {
			comp := "F_" + parts[0] + "_" + parts[1] + "_" + f
			for _, wkey := range ms.writers(comp) {
				spec := cs.Funcs[wkey]
				if spec == nil {
					// closures inside a function under contract are covered by the enclosing function's own obligations
					if i := strings.Index(wkey, "$"); i > 0 && cs.Funcs[wkey[:i]] != nil {
						continue
					}
					missing = append(missing, wkey+" writes "+parts[1]+"."+f+" without a contract")
					continue
				}
				ok := false
				for _, e := range spec.Ensures {
					if strings.Contains(e.Text, "inv(") || strings.Contains(e.Text, "inv_") {
						ok = true
					}
				}
				if !ok && spec.Modes["invhelper"] != "" {
					// a helper that runs inside its callers' critical section: every caller must re-establish the invariant
					callers, _ := ms.otherCallers(wkey, nil)
					ok = len(callers) > 0
					for _, ck := range callers {
						cspec := cs.Funcs[ck]
						good := false
						if cspec != nil {
							for _, e := range cspec.Ensures {
								if strings.Contains(e.Text, "inv(") || strings.Contains(e.Text, "inv_") {
									good = true
								}
							}
						}
						if !good {
							ok = false
							missing = append(missing, wkey+" (invariant helper) is called from "+ck+", which does not re-establish the invariant")
						}
					}
				}
				if !ok && spec.Trusted == "" {
					missing = append(missing, wkey+" writes "+parts[1]+"."+f+" but its contract does not re-establish the invariant")
				}
			}
		}
		rep := &FuncReport{Key: "writers of invariant " + tkey}
		reps = append(reps, rep)
		ob := &Obligation{Name: tkey + ":inv.writers", Kind: "writers", Func: tkey, Goal: "true", Props: []string{o.property},
			Text:   "every function that writes a field mentioned by the invariant of " + tkey + " is under a contract that re-establishes it",
			Result: &SolveResult{Status: "unsat", Backend: "static-scan"}}
		if len(missing) > 0 {
			ob.Result = &SolveResult{Status: "sat", Backend: "static-scan", Output: strings.Join(missing, "; ")}
		}
		obls = append(obls, ob)
		rep.Obligations = 1
	}
	// ownership declarations: every store into a unique field must store an object created in the same function
	for _, ud := range cs.Uniques {
		if !hasProp(ud.Props, o.property) || o.only != "" {
			continue
		}
		name := ud.Pkg + "." + ud.Type + "." + ud.Field
		rep := &FuncReport{Key: "unique " + name}
		reps = append(reps, rep)
		uniqueCS = cs
		bad := uniqueViolations(w, ud)
		ob := &Obligation{Name: name + ":unique.writers", Kind: "unique", Func: name, Goal: "true", Props: ud.Props,
			Text:   "every store into " + name + " stores a map/slice/object freshly created in the storing function",
			Result: &SolveResult{Status: "unsat", Backend: "static-scan"}}
		if len(bad) > 0 {
			ob.Result = &SolveResult{Status: "sat", Backend: "static-scan", Output: "stores of a value that is not freshly created: " + strings.Join(bad, "; ")}
		}
		obls = append(obls, ob)
		rep.Obligations = 1
	}
	for _, td := range cs.Trans {
		if !hasProp(td.Props, o.property) || o.only != "" {
			continue
		}
		name := td.Pkg + "." + td.Func
		rep := &FuncReport{Key: "transition table " + name}
		reps = append(reps, rep)
		ob := &Obligation{Name: name + ":transitions.documented", Kind: "table", Func: name, Goal: "true", Props: td.Props,
			Text:   "every (source, destination) pair of the state-machine table returned by " + name + " is a documented transition",
			Result: &SolveResult{Status: "unsat", Backend: "table-evaluator"}}
		ob2 := &Obligation{Name: name + ":transitions.deterministic", Kind: "table", Func: name, Goal: "true", Props: td.Props,
			Text:   "every (event, source) pair of the table has at most one destination",
			Result: &SolveResult{Status: "unsat", Backend: "table-evaluator"}}
		triples, err := evalTransitions(w, td)
		if err != nil {
			ob.Result = &SolveResult{Status: "error", Output: err.Error()}
		} else {
			var bad, nondet []string
			seen := map[string]string{}
			for _, t := range triples {
				if t[0] != t[1] && !td.Allowed[t[0]+">"+t[1]] {
					bad = append(bad, t[0]+" -> "+t[1]+" (event "+t[2]+")")
				}
				k := t[2] + "|" + t[0]
				if d, ok := seen[k]; ok && d != t[1] {
					nondet = append(nondet, "event "+t[2]+" from "+t[0]+" goes to "+d+" and "+t[1])
				}
				seen[k] = t[1]
			}
			if len(triples) == 0 {
				bad = append(bad, "the table is empty")
			}
			if len(bad) > 0 {
				ob.Result = &SolveResult{Status: "sat", Backend: "table-evaluator", Output: "undocumented transitions: " + strings.Join(bad, "; ")}
			}
			if len(nondet) > 0 {
				ob2.Result = &SolveResult{Status: "sat", Backend: "table-evaluator", Output: strings.Join(nondet, "; ")}
			}
		}
		obls = append(obls, ob, ob2)
		rep.Obligations = 2
	}
	for _, cd := range cs.ConstMaps {
		if !hasProp(cd.Props, o.property) || o.only != "" {
			continue
		}
		name := cd.Pkg + "." + cd.Var
		rep := &FuncReport{Key: name + " (constant table)"}
		reps = append(reps, rep)
		ob := &Obligation{Name: name + ":constmap.literal", Kind: "table", Func: name, Goal: "true", Props: cd.Props,
			Text:   "the map literal initialising " + cd.Var + " is exactly: " + cd.Text,
			Result: &SolveResult{Status: "unsat", Backend: "table-evaluator"}}
		got, err := evalConstMap(w, cd)
		if err != nil {
			ob.Result = &SolveResult{Status: "error", Output: err.Error()}
		} else {
			var bad []string
			for k, v := range cd.Entries {
				if gv, ok := got[k]; !ok {
					bad = append(bad, fmt.Sprintf("missing key %q", k))
				} else if gv != v {
					bad = append(bad, fmt.Sprintf("%q is %s, documented %s", k, gv, v))
				}
			}
			for k := range got {
				if _, ok := cd.Entries[k]; !ok {
					bad = append(bad, fmt.Sprintf("undocumented key %q", k))
				}
			}
			sort.Strings(bad)
			if len(bad) > 0 {
				ob.Result = &SolveResult{Status: "sat", Backend: "table-evaluator", Output: strings.Join(bad, "; ")}
			}
		}
		ob2 := &Obligation{Name: name + ":constmap.readonly", Kind: "table", Func: name, Goal: "true", Props: cd.Props,
			Text:   cd.Var + " is never written outside package initialisation",
			Result: &SolveResult{Status: "unsat", Backend: "ssa-scan"}}
		if ws := constMapWriters(w, cd); len(ws) > 0 {
			ob2.Result = &SolveResult{Status: "sat", Backend: "ssa-scan", Output: "written by " + strings.Join(ws, ", ")}
		}
		obls = append(obls, ob, ob2)
		rep.Obligations = 2
	}
	for _, ud := range cs.Unreach {
		if !hasProp(ud.Props, o.property) || o.only != "" {
			continue
		}
		rep := &FuncReport{Key: "unreachable " + ud.Name}
		reps = append(reps, rep)
		if ud.Frame {
			for _, from := range ud.From {
				ob := &Obligation{Name: ud.Name + ":frame(" + from + ")", Kind: "frame", Func: ud.Name, Goal: "true", Props: ud.Props,
					Text:   "the write set of " + from + " (everything it may call included, re-derived from the SSA) contains none of: " + strings.Join(ud.To, " "),
					Result: &SolveResult{Status: "unsat", Backend: "modset"}}
				fn := w.lookupFunc(from)
				if ms == nil || fn == nil || ms.eff[fn] == nil {
					ob.Result = &SolveResult{Status: "sat", Backend: "modset", Output: "function not found or no mod-set: " + from}
				} else {
					var hit []string
					for _, comp := range sortedKeys(ms.eff[fn].comps) {
						for _, pat := range ud.To {
							if comp == pat || (strings.HasSuffix(pat, "*") && strings.HasPrefix(comp, strings.TrimSuffix(pat, "*"))) {
								hit = append(hit, comp+" (written by "+strings.Join(ms.writersReachable(fn, comp), ", ")+")")
							}
						}
					}
					if len(ms.eff[fn].comps) == 0 {
						hit = append(hit, "empty write set: the analysis did not see the function body")
					}
					if len(hit) > 0 {
						ob.Result = &SolveResult{Status: "sat", Backend: "modset", Output: "forbidden components in the write set: " + strings.Join(hit, "; ")}
					}
				}
				obls = append(obls, ob)
				rep.Obligations++
			}
			continue
		}
		if ud.Callers {
			ob := &Obligation{Name: ud.Name + ":callers", Kind: "callgraph", Func: ud.Name, Goal: "true", Props: ud.Props,
				Text:   "every static call site of " + ud.To[0] + " is inside one of: " + strings.Join(ud.From, ", "),
				Result: &SolveResult{Status: "unsat", Backend: "callgraph"}}
			if ms == nil {
				ob.Result = &SolveResult{Status: "error", Output: "no call graph"}
			} else if extra, missing := ms.otherCallers(ud.To[0], ud.From); missing != "" {
				ob.Result = &SolveResult{Status: "sat", Backend: "callgraph", Output: "function not found: " + missing}
			} else if len(extra) > 0 {
				ob.Result = &SolveResult{Status: "sat", Backend: "callgraph", Output: "call sites outside the allowed callers: " + strings.Join(extra, ", ")}
			}
			obls = append(obls, ob)
			rep.Obligations++
			continue
		}
		for _, to := range ud.To {
			ob := &Obligation{Name: ud.Name + ":unreachable(" + to + ")", Kind: "callgraph", Func: ud.Name, Goal: "true", Props: ud.Props,
				Text:   to + " is not reachable from " + strings.Join(ud.From, ", ") + " in the call graph of the working tree",
				Result: &SolveResult{Status: "unsat", Backend: "callgraph"}}
			if ms == nil {
				ob.Result = &SolveResult{Status: "error", Output: "no call graph"}
			} else if path, missing := ms.reachPath(ud.From, to); missing != "" {
				ob.Result = &SolveResult{Status: "sat", Backend: "callgraph", Output: "function not found: " + missing}
			} else if path != nil {
				ob.Result = &SolveResult{Status: "sat", Backend: "callgraph", Output: "call path: " + strings.Join(path, " -> ")}
			}
			obls = append(obls, ob)
			rep.Obligations++
		}
	}
	for _, lm := range cs.Lemmas {
		if !hasProp(lm.Props, o.property) || (o.only != "" && o.only != lm.Name) {
			continue
		}
		rep := &FuncReport{Key: "lemma " + lm.Name}
		reps = append(reps, rep)
		lo, err := lemmaObligations(w, cs, lm)
		if err != nil {
			rep.Error = err.Error()
			obls = append(obls, &Obligation{Name: lm.Name + ":translate", Kind: "translate", Func: lm.Name, Goal: "false", Props: lm.Props,
				Text: "the lemma compiles", Result: &SolveResult{Status: "error", Output: err.Error()}})
			continue
		}
		obls = append(obls, lo...)
		rep.Obligations = len(lo)
	}
	return obls, reps, fatal, assumed
}

func solveAll(obls []*Obligation, dir string, o runOpts) float64 {
	t0 := time.Now()
	var wg sync.WaitGroup
	sem := make(chan struct{}, o.jobs)
	for _, ob := range obls {
		if ob.Result != nil {
			continue
		}
		wg.Add(1)
		sem <- struct{}{}
		go func(ob *Obligation) {
			defer wg.Done()
			defer func() { <-sem }()
			ob.Result = solve(dir, ob, o.timeoutS, o.tier == "thorough")
		}(ob)
	}
	wg.Wait()
	return time.Since(t0).Seconds()
}

func verify(o runOpts) int {
	t0 := time.Now()
	if o.property == "" && o.only == "" {
		fmt.Fprintln(os.Stderr, "need --property or --func")
		return 2
	}
	w, err := loadWorld("./pkg/...")
	if err != nil {
		fmt.Fprintln(os.Stderr, "govc: cannot load /repo:", err)
		return 2
	}
	cs, err := loadContracts(w.RepoDir, filepath.Join(verifDir, "contracts", "assumed"))
	if err != nil {
		fmt.Fprintln(os.Stderr, "govc: contract error:", err)
		return 2
	}
	ms := modsetAnalysis(w, cs)
	tLoad := time.Since(t0).Seconds()
	obls, reps, _, assumed := generate(w, cs, ms, o)
	smtDir := filepath.Join(outDir(), "smt", nonEmpty(o.property, "adhoc"))
	os.RemoveAll(smtDir)
	solverWall := solveAll(obls, smtDir, o)

	kf := loadKnownFindings()
	if o.noFindings {
		kf = &KnownFindings{}
	}
	outcome := classify(w, cs, ms, obls, kf, o, smtDir)
	writeEvidence(o, obls, reps, assumed, outcome, tLoad, solverWall, time.Since(t0).Seconds())
	for _, l := range outcome.lines {
		fmt.Println(l)
	}
	fmt.Printf("govc: property=%s tier=%s functions=%d obligations=%d discharged=%d known=%d violations=%d wall=%.1fs\n",
		o.property, o.tier, len(reps), outcome.total, outcome.discharged, outcome.known, outcome.violations, time.Since(t0).Seconds())
	if outcome.violations > 0 {
		return 1
	}
	return 0
}

func nonEmpty(a, b string) string {
	if a != "" {
		return a
	}
	return b
}

type outcomeT struct {
	total, discharged, known, violations, covers, coversOK int
	lines                                                  []string
	failed                                                 []*Obligation
	knownObs                                               []string
}

func writeEvidence(o runOpts, obls []*Obligation, reps []*FuncReport, assumed map[string]bool, oc *outcomeT, tLoad, solverWall, wall float64) {
	if o.property == "" {
		return
	}
	type sample struct {
		Obligation string  `json:"obligation"`
		Kind       string  `json:"kind"`
		Text       string  `json:"text"`
		Status     string  `json:"status"`
		Backend    string  `json:"backend"`
		Ms         float64 `json:"ms"`
		SMTBytes   int     `json:"smt_bytes"`
		Src        string  `json:"source"`
	}
	var samples []sample
	backends := map[string]int{}
	perOb := []map[string]any{}
	sort.SliceStable(obls, func(i, j int) bool { return obls[i].Name < obls[j].Name })
	for _, ob := range obls {
		if ob.Result == nil {
			continue
		}
		backends[ob.Result.Backend]++
		sz := 0
		for _, c := range ob.Cmds {
			sz += len(c) + 1
		}
		perOb = append(perOb, map[string]any{"obligation": ob.Name, "status": ob.Result.Status, "backend": ob.Result.Backend, "ms": ob.Result.Ms})
		if len(samples) < 3 && ob.Kind == "ensures" || (len(samples) < 5 && len(samples) >= 3 && ob.Kind != "ensures" && !ob.Cover) {
			samples = append(samples, sample{ob.Name, ob.Kind, ob.Text, ob.Result.Status, ob.Result.Backend, ob.Result.Ms, sz, ob.Src})
		}
	}
	if len(samples) == 0 {
		for _, ob := range obls {
			if ob.Result != nil {
				samples = append(samples, sample{ob.Name, ob.Kind, ob.Text, ob.Result.Status, ob.Result.Backend, ob.Result.Ms, 0, ob.Src})
				break
			}
		}
	}
	trusted := []string{
		"govc itself (go/ssa -> SMT translator, contract parser) and the SMT solvers z3 5.1 / z3 4.8.12 / cvc5 1.0",
		"sequential semantics: lock operations removed, method bodies atomic, no goroutines",
		"calls into log/metrics/zap/fmt/errors/strconv/... have no effect on modelled state (DESIGN 3.3)",
		"Go semantics as encoded in DESIGN 3.2 (integers are mathematical Ints with explicit wrap-around; maps/slices/heap as arrays)",
	}
	for _, a := range sortedKeysB(assumed) {
		trusted = append(trusted, a)
	}
	notDecided, bounded := propertyNotes(o.property)
	ev := map[string]any{
		"property_id": o.property,
		"tier":        o.tier,
		"seed":        o.seed,
		"level":       "proof",
		"coverage": map[string]any{
			"obligations":              oc.total,
			"discharged":               oc.discharged,
			"known_findings":           oc.knownObs,
			"checker_cmd":              fmt.Sprintf("/verif/bin/check %s --tier %s", o.property, o.tier),
			"trusted_base":             trusted,
			"functions_under_contract": reps,
			"backends":                 backends,
			"per_obligation":           perOb,
			"solver_wall_s":            solverWall,
			"load_s":                   tLoad,
			"reachability_covers":      oc.covers,
			"covers_satisfiable":       oc.coversOK,
			"samples":                  samples,
			"not_decided":              notDecided,
			"bounded":                  bounded,
			"explanation":              "every obligation is one SMT query generated from the SSA of the function in the /repo working tree and its contract in zz_contracts_verif.go; discharged means unsat of hypotheses + negated goal",
		},
		"assumptions": trusted,
		"wall_s":      wall,
		"violations":  oc.violations,
	}
	os.MkdirAll(evidenceDir(), 0o755)
	data, _ := json.MarshalIndent(ev, "", " ")
	os.WriteFile(filepath.Join(evidenceDir(), o.property+".json"), data, 0o644)
}

// propertyNotes reads /verif/props/<id>.json (not_decided, bounded) if present.
func propertyNotes(id string) (notDecided []string, bounded []any) {
	data, err := os.ReadFile(filepath.Join(verifDir, "props", id+".json"))
	if err != nil {
		return []string{}, []any{}
	}
	var p struct {
		NotDecided []string `json:"not_decided"`
		Bounded    []any    `json:"bounded"`
	}
	json.Unmarshal(data, &p)
	if p.NotDecided == nil {
		p.NotDecided = []string{}
	}
	if p.Bounded == nil {
		p.Bounded = []any{}
	}
	return p.NotDecided, p.Bounded
}

func selfcheck() int {
	for _, s := range []string{"z3-new", "z3", "cvc5"} {
		if _, err := execLook(s); err != nil {
			fmt.Fprintln(os.Stderr, "missing solver", s)
			return 1
		}
	}
	fmt.Println("govc selfcheck ok")
	return 0
}

// uniqueViolations scans the module for stores into the field that do not store a freshly made object.
func uniqueViolations(w *World, ud UniqueDecl) []string {
	var bad []string
	for path, sp := range w.SSAPkgs {
		if !strings.HasPrefix(path, modulePath) {
			continue
		}
		var fns []*ssa.Function
		var add func(f *ssa.Function)
		seen := map[*ssa.Function]bool{}
		add = func(f *ssa.Function) {
			if f == nil || seen[f] {
				return
			}
			seen[f] = true
			fns = append(fns, f)
			for _, a := range f.AnonFuncs {
				add(a)
			}
		}
		for _, mem := range sp.Members {
			switch x := mem.(type) {
			case *ssa.Function:
				add(x)
			case *ssa.Type:
				for _, T := range []types.Type{x.Type(), types.NewPointer(x.Type())} {
					ms := w.Prog.MethodSets.MethodSet(T)
					for i := 0; i < ms.Len(); i++ {
						add(w.Prog.MethodValue(ms.At(i)))
					}
				}
			}
		}
		for _, f := range fns {
			for _, b := range f.Blocks {
				for _, ins := range b.Instrs {
					st, ok := ins.(*ssa.Store)
					if !ok {
						continue
					}
					fa, ok := st.Addr.(*ssa.FieldAddr)
					if !ok {
						continue
					}
					pt, ok := fa.X.Type().Underlying().(*types.Pointer)
					if !ok {
						continue
					}
					n, ok := types.Unalias(pt.Elem()).(*types.Named)
					if !ok || n.Obj().Pkg() == nil || n.Obj().Pkg().Name() != ud.Pkg || n.Obj().Name() != ud.Type {
						continue
					}
					if n.Underlying().(*types.Struct).Field(fa.Field).Name() != ud.Field {
						continue
					}
					switch v := st.Val.(type) {
					case *ssa.MakeMap, *ssa.MakeSlice, *ssa.Alloc:
						continue
					case *ssa.Const:
						if v.IsNil() {
							continue
						}
					case *ssa.Call:
						if callee := v.Call.StaticCallee(); callee != nil {
							if spec := uniqueCS.Funcs[funcKey(callee)]; spec != nil && promisesFresh(spec) {
								continue
							}
						}
					}
					bad = append(bad, funcKey(f)+" at "+w.Fset.Position(st.Pos()).String())
				}
			}
		}
	}
	sort.Strings(bad)
	return bad
}

var uniqueCS *Contracts

// promisesFresh: some postcondition of the contract states that the (first) result is a fresh object.
func promisesFresh(spec *FuncSpec) bool {
	for _, e := range spec.Ensures {
		if strings.Contains(e.Text, "fresh(") {
			return true
		}
	}
	return false
}

// invServes: some function contract serving the property uses the invariant of type tkey (holds/requires/ensures).
func invServes(cs *Contracts, tkey, prop string) bool {
	short := tkey[strings.Index(tkey, ".")+1:]
	for _, spec := range cs.Funcs {
		if !hasProp(spec.Props, prop) || !strings.HasPrefix(spec.Key, tkey[:strings.Index(tkey, ".")+1]) {
			continue
		}
		for _, cl := range append(append(append([]*Clause{}, spec.Holds...), spec.Requires...), spec.Ensures...) {
			if strings.Contains(cl.Text, "inv(") || strings.Contains(cl.Text, "inv_") {
				// the clause is about a value of this type if the function's receiver/params mention it: approximate by header text
				if strings.Contains(spec.Header, "*"+short) || strings.Contains(spec.Header, short+")") {
					return true
				}
			}
		}
	}
	return false
}

// collectFields gathers the first-level fields of the invariant variable that an expression reads.
func collectFields(e Expr, v string, out map[string]bool) {
	switch x := e.(type) {
	case *ESel:
		if id, ok := x.X.(*EIdent); ok && id.Name == v {
			out[x.Sel] = true
		}
		collectFields(x.X, v, out)
	case *EIndex:
		collectFields(x.X, v, out)
		collectFields(x.I, v, out)
	case *ECall:
		for _, a := range x.Args {
			collectFields(a, v, out)
		}
	case *EUn:
		collectFields(x.X, v, out)
	case *EBin:
		collectFields(x.L, v, out)
		collectFields(x.R, v, out)
	case *ECond:
		collectFields(x.C, v, out)
		collectFields(x.A, v, out)
		collectFields(x.B, v, out)
	case *EQuant:
		collectFields(x.Body, v, out)
	case *ELet:
		collectFields(x.Val, v, out)
		collectFields(x.Body, v, out)
	}
}
