package main

import (
	"fmt"
	"go/token"
	"go/types"
	"math"
	"math/big"
	"os"
	"strings"

	"golang.org/x/tools/go/ssa"
)

func fpLiteral(f float64) string {
	bits := math.Float64bits(f)
	sign := bits >> 63
	exp := (bits >> 52) & 0x7ff
	man := bits & ((1 << 52) - 1)
	return fmt.Sprintf("(fp #b%b #b%011b #b%052b)", sign, exp, man)
}

func fpLiteralBig(v *big.Int) string {
	// nearest float64 (exact for powers of two; MaxInt64 rounds to 2^63)
	f, _ := new(big.Float).SetInt(v).Float64()
	return fpLiteral(f)
}

// droppedPkgs: calls into these packages have no effect on modelled state (DESIGN §3.3 item 1).
var droppedPkgPrefixes = []string{
	modulePath + "/pkg/log",
	modulePath + "/pkg/metrics",
	"go.uber.org/zap",
	"fmt", "errors", "strconv", "strings", "unicode", "math", "time", "sort", "regexp", "bytes", "slices", "maps", "cmp",
	"encoding/json", "os", "runtime", "reflect", "sync/atomic", "context", "io", "bufio", "path", "net/http", "crypto", "hash",
	"github.com/google/uuid", "github.com/prometheus", "gotest.tools", "golang.org/x",
}

func (vc *VC) isDropped(fn *ssa.Function) bool {
	if fn == nil {
		return false
	}
	pkg := ""
	if fn.Pkg != nil {
		pkg = fn.Pkg.Pkg.Path()
	} else if fn.Object() != nil && fn.Object().Pkg() != nil {
		pkg = fn.Object().Pkg().Path()
	}
	if vc.isLockCall(fn) {
		return true
	}
	// event senders: no effect on scheduler objects (DESIGN 3.3 item 1); calls inside pkg/events itself are kept
	if pkg == modulePath+"/pkg/scheduler/objects/events" {
		return true
	}
	if pkg == modulePath+"/pkg/events" && (vc.fn == nil || vc.fn.Pkg == nil || vc.fn.Pkg.Pkg.Path() != pkg) {
		return true
	}
	for _, p := range droppedPkgPrefixes {
		if pkg == p || strings.HasPrefix(pkg, p+"/") {
			return true
		}
	}
	return false
}

func (vc *VC) isLockCall(fn *ssa.Function) bool {
	pkg := ""
	if fn.Pkg != nil {
		pkg = fn.Pkg.Pkg.Path()
	} else if fn.Object() != nil && fn.Object().Pkg() != nil {
		pkg = fn.Object().Pkg().Path()
	}
	switch fn.Name() {
	case "Lock", "Unlock", "RLock", "RUnlock", "TryLock", "TryRLock":
		return pkg == "sync" || pkg == modulePath+"/pkg/locking" || pkg == "github.com/sasha-s/go-deadlock"
	}
	return false
}

// call handles a call instruction (v is nil for deferred calls run at exit).
func (vc *VC) call(st *State, v *ssa.Call, c *ssa.CallCommon) error {
	var resV ssa.Value
	if v != nil {
		resV = v
	}
	if b, ok := c.Value.(*ssa.Builtin); ok {
		return vc.builtin(st, resV, b, c)
	}
	if c.IsInvoke() {
		return vc.invoke(st, resV, c)
	}
	callee := c.StaticCallee()
	if callee == nil {
		// call of a function value
		if mc, ok := c.Value.(*ssa.MakeClosure); ok {
			callee = mc.Fn.(*ssa.Function)
			_ = callee
		}
		// a function value held in a parameter or local can carry site assertions: anchor "fn.<name>"
		fname := fnValueName(c.Value)
		ordF := 0
		if fname != "" && vc.inlineDepth == 0 {
			vc.callOrd["fn."+fname]++
			ordF = vc.callOrd["fn."+fname]
			if err := vc.siteAsserts(st, "call", "fn."+fname, ordF, "before", c.Args, nil); err != nil {
				return err
			}
		}
		vc.unknownCall(st, resV, c, "call of a function value")
		if fname != "" && vc.inlineDepth == 0 {
			nc := "N_" + sanitize("fn."+fname)
			st.heap[nc] = vc.define(nc, "Int", sx("+", vc.heapGet(st, nc, "Int"), "1"))
			return vc.siteAsserts(st, "call", "fn."+fname, ordF, "after", c.Args, resV)
		}
		return nil
	}
	key := funcKey(callee)
	ord := 0
	if vc.inlineDepth == 0 { // anchors count the calls written in the function under contract itself
		vc.callOrd[key]++
		ord = vc.callOrd[key]
		if so, ok := vc.srcOrd[c]; ok {
			ord = so
		}
		if err := vc.siteAsserts(st, "call", key, ord, "before", c.Args, nil); err != nil {
			return err
		}
	}
	if spec := vc.cs.Funcs[key]; spec != nil {
		if err := vc.callContract(st, resV, c, callee, spec, ord); err != nil {
			return err
		}
	} else if vc.isDropped(callee) {
		vc.droppedCall(st, resV, callee, c)
	} else if ok, err := vc.tryInline(st, resV, callee, c.Args); ok || err != nil {
		if err != nil {
			return err
		}
	} else {
		vc.unknownCall(st, resV, c, "call of "+key+" (no contract)")
	}
	if vc.inlineDepth > 0 {
		return nil
	}
	// ghost call counter (ncalls(K) in contracts): calls written in the function under contract itself
	nc := "N_" + sanitize(key)
	st.heap[nc] = vc.define(nc, "Int", sx("+", vc.heapGet(st, nc, "Int"), "1"))
	return vc.siteAsserts(st, "call", key, ord, "after", c.Args, resV)
}

// siteAsserts generates the obligations (or assumptions) attached to a semantic anchor: the ord-th static call
// of callee key in source order. The expression sees the function's parameters, its named locals, the
// call's arguments as arg0.. (receiver first) and, after the call, its results as ret0.. / ret.
func (vc *VC) siteAsserts(st *State, kind, anchor string, ord int, when string, args []ssa.Value, resV ssa.Value) error {
	if vc.spec == nil {
		return nil
	}
	for _, ss := range vc.spec.Sites {
		if ss.AnchorKind != kind || ss.Anchor != anchor || (ss.N != 0 && ss.N != ord) || ss.When != when {
			continue
		}
		vc.siteHits[ss]++
		env := vc.baseEnv(st)
		vc.localVars(st, env.vars, nil)
		for i, a := range args {
			env.vars[fmt.Sprintf("arg%d", i)] = Val{T: vc.val(st, a), S: vc.sortOf(a.Type()), Ty: a.Type()}
		}
		if resV != nil && when == "after" {
			if tup, ok := vc.tuples[resV]; ok {
				rt := resV.Type().(*types.Tuple)
				for i, t := range tup {
					env.vars[fmt.Sprintf("ret%d", i)] = Val{T: t, S: vc.sortOf(rt.At(i).Type()), Ty: rt.At(i).Type()}
				}
			} else if t, ok := vc.vals[resV]; ok {
				env.vars["ret"] = Val{T: t, S: vc.sortOf(resV.Type()), Ty: resV.Type()}
				env.vars["ret0"] = env.vars["ret"]
			}
		}
		t, err := env.compileBool(ss.Clause.E)
		if err != nil {
			return fmt.Errorf("%s: site %s %s#%d: %v", vc.key, kind, anchor, ord, err)
		}
		if ss.IsAssume {
			vc.assume(st, t)
			vc.assumedUse[fmt.Sprintf("assume at %s %s#%d in %s: %s", kind, anchor, ord, vc.key, ss.Clause.Text)] = true
			continue
		}
		name := fmt.Sprintf("site@%s(%s)#%d", kind, anchor, ord)
		if ss.Clause.Label != "" {
			name += "[" + ss.Clause.Label + "]"
		}
		if when == "after" {
			name += ".after"
		}
		vc.coverOnce(st, "cover."+name)
		vc.oblige(st, name, "site", t, ss.Clause.Text, ss.Clause.Props)
	}
	return nil
}

// droppedCall: result unconstrained apart from a few library facts.
func (vc *VC) droppedCall(st *State, resV ssa.Value, callee *ssa.Function, c *ssa.CallCommon) {
	// sorting permutes the elements of its slice argument and runs the comparator closure
	if pk := callee.Pkg; pk != nil && (pk.Pkg.Path() == "sort" || pk.Pkg.Path() == "slices") {
		comps := map[string]string{}
		for _, a := range c.Args {
			if sl, ok := a.Type().Underlying().(*types.Slice); ok {
				ms := newModSet()
				if isStructLike(sl.Elem()) {
					vc.structMods(sl.Elem(), ms)
				} else {
					vc.msElem(ms, sl.Elem())
				}
				for k, v := range ms.comps {
					comps[k] = v
				}
			}
		}
		vc.havocCaptured(st, c)
		if len(comps) > 0 {
			saved := vc.spec.HasAssigns
			vc.spec.HasAssigns = false // sorting a local slice is not a frame violation by itself
			vc.havocComps(st, comps, "sort permutes "+callee.Name())
			vc.spec.HasAssigns = saved
			vc.assumedUse["sort/slices functions permute their slice argument (elements havocked, no other effect)"] = true
		}
	}
	if resV == nil {
		return
	}
	full := callee.String()
	vc.setFresh(st, resV, "lib")
	switch full {
	case "errors.New", "fmt.Errorf", "errors.Join":
		vc.assume(st, sx("not", sx("=", vc.vals[resV], "0")))
	case "math.IsNaN":
		if !vc.spec.FloatFP {
			vc.assume(st, sx("not", vc.vals[resV]))
		} else {
			vc.assume(st, sx("=", vc.vals[resV], sx("fp.isNaN", vc.val(st, c.Args[0]))))
		}
	case "math.Floor", "math.Ceil", "math.Abs", "math.Max", "math.Min":
	case "time.Now":
	}
	if strings.HasPrefix(full, "(*github.com/apache/yunikorn-core/pkg/log") || strings.HasPrefix(full, "github.com/apache/yunikorn-core/pkg/log.") ||
		strings.HasPrefix(full, "go.uber.org/zap") {
		// loggers and fields are never nil
		if _, isPtr := resV.Type().Underlying().(*types.Pointer); isPtr {
			vc.assume(st, sx("not", sx("=", vc.vals[resV], "0")))
		}
	}
}

// havocCaptured forgets the caller's local cells that a closure captures by reference and assigns.
func (vc *VC) havocCaptured(st *State, c *ssa.CallCommon) {
	// closures handed to the callee as arguments (ForEachNode(func...), sort.Slice(..., less)) may run and assign
	// the variables they capture
	for _, a := range c.Args {
		if amc, ok := a.(*ssa.MakeClosure); ok {
			vc.havocClosureCells(st, amc)
		}
	}
	mc, ok := c.Value.(*ssa.MakeClosure)
	if !ok {
		return
	}
	vc.havocClosureCells(st, mc)
}

func (vc *VC) havocClosureCells(st *State, mc *ssa.MakeClosure) {
	fn, ok := mc.Fn.(*ssa.Function)
	if !ok {
		return
	}
	written := map[*ssa.FreeVar]bool{}
	var scan func(f *ssa.Function)
	scan = func(f *ssa.Function) {
		for _, b := range f.Blocks {
			for _, ins := range b.Instrs {
				if s, ok := ins.(*ssa.Store); ok {
					if fv, ok := s.Addr.(*ssa.FreeVar); ok {
						written[fv] = true
					}
				}
			}
		}
	}
	scan(fn)
	for i, fv := range fn.FreeVars {
		if i >= len(mc.Bindings) {
			break
		}
		al, ok := mc.Bindings[i].(*ssa.Alloc)
		if !ok {
			continue
		}
		if written[fv] || len(fn.AnonFuncs) > 0 {
			if _, live := st.cells[al]; live {
				ty := al.Type().(*types.Pointer).Elem()
				st.cells[al] = vc.declare("captured_"+al.Comment, vc.sortOf(ty))
				vc.assumeType(st, st.cells[al], ty)
			}
		}
	}
}

func (vc *VC) unknownCall(st *State, resV ssa.Value, c *ssa.CallCommon, why string) {
	vc.havocCaptured(st, c)
	if vc.ms != nil {
		if eff := vc.ms.effectOf(c, vc.fn); eff != nil && !eff.all {
			vc.havocComps(st, eff.comps, why)
			if resV != nil {
				vc.setFresh(st, resV, "call")
			}
			return
		}
	}
	vc.havocAll(st, why)
	if resV != nil {
		vc.setFresh(st, resV, "call")
	}
}

// havocComps forgets the given components entirely (used for inferred mod-sets).
func (vc *VC) havocComps(st *State, comps map[string]string, why string) {
	if vc.spec.HasAssigns && len(comps) > 0 {
		// an un-contracted callee that writes heap state cannot be shown to respect the caller's frame
		ws := sortedKeys(comps)
		vc.assignsOb(st, "false", "call without contract that may write "+strings.Join(ws[:min(3, len(ws))], ","))
	}
	old := st.allocTop
	st.allocTop = vc.declare("allocTop", "Int")
	vc.assume(st, sx("<=", old, st.allocTop))
	for _, comp := range sortedKeys(comps) {
		st.heap[comp] = vc.declare(comp+"_call", comps[comp])
		vc.decl["§"+comp] = comps[comp]
		vc.closed(st.heap[comp], comp, comps[comp], st.allocTop)
	}
	if len(comps) > 0 {
		vc.note("inferred mod-set havoc: " + why)
	}
	// objects the callee allocated only refer to objects that exist after the call
	vc.closeAll(st)
	vc.assumeGlobals(st)
}

func (vc *VC) invoke(st *State, resV ssa.Value, c *ssa.CallCommon) error {
	recv := vc.val(st, c.Value)
	vc.panicOb(st, "nil", "invoke("+c.Method.Name()+")", sx("not", sx("=", recv, "0")))
	// error.Error() and friends: pure
	if c.Method.Pkg() == nil {
		if resV != nil {
			vc.setFresh(st, resV, "invoke")
		}
		return nil
	}
	// contract attached to the interface method: pkg.Iface.Method
	if named, ok := c.Value.Type().(*types.Named); ok && named.Obj().Pkg() != nil {
		key := named.Obj().Pkg().Name() + "." + named.Obj().Name() + "." + c.Method.Name()
		allArgs := append([]ssa.Value{c.Value}, c.Args...)
		ord := 0
		if vc.inlineDepth == 0 {
			vc.callOrd[key]++
			ord = vc.callOrd[key]
			if err := vc.siteAsserts(st, "call", key, ord, "before", allArgs, nil); err != nil {
				return err
			}
		}
		if spec := vc.cs.Funcs[key]; spec != nil {
			if err := vc.callContractGeneric(st, resV, c, spec, key, ord, c.Method.Type().(*types.Signature), allArgs, nil, true); err != nil {
				return err
			}
		} else {
			vc.unknownCall(st, resV, c, "interface call "+c.Method.Name())
		}
		if vc.inlineDepth == 0 {
			// ghost call counter of the interface method (ncalls(pkg.Iface.Method))
			nc := "N_" + sanitize(key)
			st.heap[nc] = vc.define(nc, "Int", sx("+", vc.heapGet(st, nc, "Int"), "1"))
			return vc.siteAsserts(st, "call", key, ord, "after", allArgs, resV)
		}
		return nil
	}
	vc.unknownCall(st, resV, c, "interface call "+c.Method.Name())
	return nil
}

func (vc *VC) builtin(st *State, resV ssa.Value, b *ssa.Builtin, c *ssa.CallCommon) error {
	switch b.Name() {
	case "len":
		x := vc.val(st, c.Args[0])
		switch u := c.Args[0].Type().Underlying().(type) {
		case *types.Map:
			dom, _, _, _ := vc.mapArrays(st, u)
			card := vc.cardFun(vc.sortOf(u.Key()))
			vc.setVal(resV, smtIte(sx("=", x, "0"), "0", sx(card, sx("select", dom, x))))
		case *types.Slice:
			vc.setVal(resV, sx("slen", x))
		case *types.Basic:
			vc.setVal(resV, sx("str_len", x))
		default:
			vc.setFresh(st, resV, "len")
			vc.assume(st, sx("<=", "0", vc.vals[resV]))
		}
	case "cap":
		x := vc.val(st, c.Args[0])
		if _, ok := c.Args[0].Type().Underlying().(*types.Slice); ok {
			vc.setVal(resV, sx("scap", x))
		} else {
			vc.setFresh(st, resV, "cap")
		}
	case "delete":
		mt := c.Args[0].Type().Underlying().(*types.Map)
		vc.mapWrite(st, mt, vc.val(st, c.Args[0]), vc.val(st, c.Args[1]), "", false)
	case "max", "min":
		t := vc.val(st, c.Args[0])
		if isIntType(c.Args[0].Type()) {
			f := "imax"
			if b.Name() == "min" {
				f = "imin"
			}
			for _, a := range c.Args[1:] {
				t = sx(f, t, vc.val(st, a))
			}
			vc.setVal(resV, t)
		} else {
			vc.setFresh(st, resV, b.Name())
		}
	case "append":
		vc.appendOp(st, resV, c)
	case "copy":
		vc.copyOp(st, resV, c)
	case "ssa:wrapnilchk":
		x := vc.val(st, c.Args[0])
		vc.panicOb(st, "nil", "methodvalue", sx("not", sx("=", x, "0")))
		vc.vals[resV] = x
	case "ssa:deferstack":
		if resV != nil {
			vc.vals[resV] = "0"
		}
	case "print", "println":
	case "recover":
		if resV != nil {
			vc.setFresh(st, resV, "recover")
		}
	case "panic":
		vc.panicOb(st, "explicit", "panic", "false")
	case "clear":
		vc.unsupp["builtin clear"] = true
		vc.havocAll(st, "builtin clear")
	default:
		vc.unsupp["builtin "+b.Name()] = true
		if resV != nil {
			vc.setFresh(st, resV, b.Name())
		}
	}
	return nil
}

// appendOp models append as producing a slice over a fresh backing array that holds the old
// elements followed by the appended ones (DESIGN §3.2: sharing of spare capacity is not modelled).
func (vc *VC) appendOp(st *State, resV ssa.Value, c *ssa.CallCommon) {
	sl, ok := c.Args[0].Type().Underlying().(*types.Slice)
	if !ok {
		vc.setFresh(st, resV, "append")
		return
	}
	s := vc.val(st, c.Args[0])
	comp, es := vc.elemComp(sl.Elem())
	sortC := "(Array Int (Array Int " + es + "))"
	arr := vc.heapGet(st, comp, sortC)
	if isStructLike(sl.Elem()) {
		vc.unsupp["append to slice of structs"] = true
	}
	// append sites: "at append Type.field#n: assert e" - the destination is a field (or a named local) and the
	// appended element is visible as elem
	if vc.inlineDepth == 0 && vc.spec != nil && len(vc.spec.Sites) > 0 {
		if anchor := appendAnchor(c.Args[0]); anchor != "" {
			vc.callOrd["append:"+anchor]++
			ord := vc.callOrd["append:"+anchor]
			if so, ok := vc.srcOrd[c]; ok {
				ord = so
			}
			if _, isStr := c.Args[1].Type().Underlying().(*types.Basic); !isStr {
				t := vc.val(st, c.Args[1])
				elem := sx("select", sx("select", arr, sx("sbase", t)), sx("soff", t))
				if err := vc.appendSites(st, anchor, ord, Val{T: elem, S: es, Ty: sl.Elem()}); err != nil {
					panic(compileErr{err.Error()})
				}
			}
		}
	}
	vc.assumedUse["append always copies to a fresh backing array (aliasing through spare capacity not modelled)"] = true
	arr = vc.patSafe(arr, sortC)
	r := vc.newRef(st, "appendbacking")
	// second argument is a slice (variadic form)
	t := vc.val(st, c.Args[1])
	if _, isStr := c.Args[1].Type().Underlying().(*types.Basic); isStr {
		vc.setFresh(st, resV, "append")
		return
	}
	n := sx("+", sx("slen", s), sx("slen", t))
	cp := vc.declare("cap", "Int")
	vc.assume(st, sx(">=", cp, n))
	nb := vc.declare("appended", "(Array Int "+es+")")
	q := vc.fresh("i")
	vc.assume(st, fmt.Sprintf("(forall ((%s Int)) (! (=> (and (<= 0 %s) (< %s (slen %s))) (= (select %s %s) (select (select %s (sbase %s)) (+ (soff %s) %s)))) :pattern ((select %s %s))))",
		q, q, q, s, nb, q, arr, s, s, q, nb, q))
	q2 := vc.fresh("j")
	vc.assume(st, fmt.Sprintf("(forall ((%s Int)) (! (=> (and (<= 0 %s) (< %s (slen %s))) (= (select %s (+ (slen %s) %s)) (select (select %s (sbase %s)) (+ (soff %s) %s)))) :pattern ((select (select %s (sbase %s)) (+ (soff %s) %s)))))",
		q2, q2, q2, t, nb, s, q2, arr, t, t, q2, arr, t, t, q2))
	// direct instance for the common single-element append
	vc.assume(st, sx("=>", sx(">=", sx("slen", t), "1"), sx("=", sx("select", nb, sx("slen", s)), sx("select", sx("select", arr, sx("sbase", t)), sx("soff", t)))))
	vc.heapSet(st, comp, sortC, sx("store", arr, r, nb))
	vc.vals[resV] = vc.newSlice(st, resV.Name()+"_app", r, "0", n, cp)
}

func (vc *VC) copyOp(st *State, resV ssa.Value, c *ssa.CallCommon) {
	sl, ok := c.Args[0].Type().Underlying().(*types.Slice)
	if !ok {
		vc.havocAll(st, "copy to non-slice")
		return
	}
	if _, ok := c.Args[1].Type().Underlying().(*types.Slice); !ok {
		vc.unsupp["copy from string"] = true
		vc.havocAll(st, "copy from string")
		if resV != nil {
			vc.setFresh(st, resV, "copy")
		}
		return
	}
	d, s := vc.val(st, c.Args[0]), vc.val(st, c.Args[1])
	comp, es := vc.elemComp(sl.Elem())
	sortC := "(Array Int (Array Int " + es + "))"
	arr := vc.heapGet(st, comp, sortC)
	arr = vc.patSafe(arr, sortC)
	n := vc.define("copyn", "Int", sx("imin", sx("slen", d), sx("slen", s)))
	vc.writeCheck(st, comp, sx("sbase", d))
	nb := vc.declare("copied", "(Array Int "+es+")")
	q := vc.fresh("i")
	// memmove semantics: destination range takes the OLD source values, everything else is unchanged
	vc.assume(st, fmt.Sprintf("(forall ((%s Int)) (! (= (select %s %s) (ite (and (<= (soff %s) %s) (< %s (+ (soff %s) %s))) (select (select %s (sbase %s)) (+ (soff %s) (- %s (soff %s)))) (select (select %s (sbase %s)) %s))) :pattern ((select %s %s))))",
		q, nb, q, d, q, q, d, n, arr, s, s, q, d, arr, d, q, nb, q))
	vc.heapSet(st, comp, sortC, sx("store", arr, sx("sbase", d), nb))
	if resV != nil {
		vc.vals[resV] = n
	}
}

// ---------------------------------------------------------------- calls through contracts

func (vc *VC) callContract(st *State, resV ssa.Value, c *ssa.CallCommon, callee *ssa.Function, spec *FuncSpec, ord int) error {
	var params []*ssa.Parameter = callee.Params
	return vc.callContractGeneric(st, resV, c, spec, funcKey(callee), ord, callee.Signature, c.Args, params, false)
}

func (vc *VC) callContractGeneric(st *State, resV ssa.Value, c *ssa.CallCommon, spec *FuncSpec, key string, ord int,
	sig *types.Signature, args []ssa.Value, params []*ssa.Parameter, isInvoke bool) error {
	if spec.Trusted != "" {
		vc.assumedUse["assumed contract "+key+" ("+spec.Trusted+")"] = true
	}
	pre := st.clone()
	calleePkg := vc.fn.Pkg.Pkg
	if cf := c.StaticCallee(); cf != nil && cf.Pkg != nil {
		calleePkg = cf.Pkg.Pkg
	} else if named, ok := c.Value.Type().(*types.Named); ok && named.Obj().Pkg() != nil {
		calleePkg = named.Obj().Pkg()
	}
	vars := map[string]Val{}
	if !isInvoke && len(params) == 0 && len(args) > 0 {
		// function without a built body (outside the module): parameter names from the signature
		var ps []*types.Var
		if sig.Recv() != nil {
			ps = append(ps, sig.Recv())
		}
		for i := 0; i < sig.Params().Len(); i++ {
			ps = append(ps, sig.Params().At(i))
		}
		for i, p := range ps {
			if i < len(args) {
				v := Val{T: vc.val(st, args[i]), S: vc.sortOf(p.Type()), Ty: p.Type()}
				vars[p.Name()] = v
				vars["old:"+p.Name()] = v
			}
		}
	} else if !isInvoke {
		for i, p := range params {
			if i < len(args) {
				v := Val{T: vc.val(st, args[i]), S: vc.sortOf(p.Type()), Ty: p.Type()}
				vars[p.Name()] = v
				vars["old:"+p.Name()] = v
			}
		}
	} else {
		// interface method: receiver is "self", parameters by signature names
		vars["self"] = Val{T: vc.val(st, args[0]), S: "Int", Ty: args[0].Type()}
		for i := 0; i < sig.Params().Len(); i++ {
			p := sig.Params().At(i)
			vars[p.Name()] = Val{T: vc.val(st, args[i+1]), S: vc.sortOf(p.Type()), Ty: p.Type()}
		}
	}
	envPre := &Env{vc: vc, st: pre, old: pre, vars: vars, pkg: calleePkg}
	for _, r := range spec.Requires {
		parts, err := vc.splitClause(envPre, r)
		if err != nil {
			return fmt.Errorf("%s: requires#%d of %s: %v", vc.key, r.N, key, err)
		}
		for _, pt := range parts {
			vc.oblige(st, fmt.Sprintf("requires#%d%s@call(%s)#%d", r.N, pt.suffix, key, ord), "requires", pt.term, pt.text, r.Props)
		}
	}
	// frame of the callee
	if !spec.Pure {
		if !spec.HasAssigns {
			var comps map[string]string
			if vc.ms != nil {
				if eff := vc.ms.effectOf(c, vc.fn); eff != nil && !eff.all {
					comps = eff.comps
				}
			}
			if comps != nil {
				vc.havocComps(st, comps, "callee "+key+" has no assigns clause")
			} else {
				vc.havocAll(st, "callee "+key+" has no assigns clause")
			}
		} else {
			if err := vc.havocTargets(st, pre, envPre, spec.Assigns, key, ord); err != nil {
				return err
			}
		}
	}
	// results
	post := st
	vars2 := map[string]Val{}
	for k, v := range vars {
		vars2[k] = v
	}
	res := sig.Results()
	var rts []string
	for i := 0; i < res.Len(); i++ {
		t := vc.declare(fmt.Sprintf("ret_%s", sanitize(key)), vc.sortOf(res.At(i).Type()))
		vc.assumeType(post, t, res.At(i).Type())
		rts = append(rts, t)
		name := res.At(i).Name()
		if i < len(spec.ResultNames) {
			name = spec.ResultNames[i]
		}
		v := Val{T: t, S: vc.sortOf(res.At(i).Type()), Ty: res.At(i).Type()}
		if name != "" && name != "_" {
			vars2[name] = v
		}
		vars2[fmt.Sprintf("result%d", i)] = v
		if res.Len() == 1 {
			vars2["result"] = v
		}
	}
	if resV != nil {
		if res.Len() == 1 {
			vc.vals[resV] = rts[0]
		} else if res.Len() > 1 {
			vc.tuples[resV] = rts
		}
	}
	envPost := &Env{vc: vc, st: post, old: pre, vars: vars2, pkg: calleePkg}
	for _, e := range spec.Ensures {
		if mentionsExecutionGhost(e.Text) && os.Getenv("GOVC_SELFCHECK_EXPORT_GHOSTS") == "" {
			// ncalls / nsends / ndone / iter talk about the callee's own execution; the caller's counters are different
			// objects, so such a clause says nothing a caller may use (assuming it would equate unrelated counters)
			continue
		}
		t, err := envPost.compileBool(e.E)
		if err != nil {
			return fmt.Errorf("%s: ensures#%d of %s: %v", vc.key, e.N, key, err)
		}
		vc.assume(post, t)
	}
	return nil
}

func mentionsExecutionGhost(text string) bool {
	for _, g := range []string{"ncalls(", "nsends(", "ndone(", "iter("} {
		if strings.Contains(text, g) {
			return true
		}
	}
	return false
}

// havocTargets forgets exactly the locations named by the callee's assigns clause (plus objects the callee allocates).
func (vc *VC) havocTargets(st, pre *State, envPre *Env, tgts []Target, key string, ord int) error {
	// components the targets touch
	type upd struct {
		sort string
		refs []string
		all  bool
	}
	ups := map[string]*upd{}
	for _, t := range tgts {
		if t.Kind == "any" {
			if vc.spec.HasAssigns {
				vc.assignsOb(st, "false", "call of "+key+" (assigns *)")
			}
			vc.havocAll(st, "callee "+key+" assigns *")
			return nil
		}
		var comps map[string]string
		if t.Kind == "typefield" || t.Kind == "typefieldcontents" {
			ty, _ := envPre.lookupTypeSafe(t.X.(*EIdent).Name)
			if ty == nil {
				return fmt.Errorf("%s: assigns of %s: unknown type %s", vc.key, key, t.Src)
			}
			ms := newModSet()
			i, ok := fieldIndexByName(ty, t.Sel)
			if !ok {
				return fmt.Errorf("%s: target-exists: %s of %s", vc.key, t.Src, key)
			}
			if t.Kind == "typefield" {
				vc.msField(ms, ty, i)
			} else {
				vc.contentsMods(ms, ty.Underlying().(*types.Struct).Field(i).Type())
			}
			comps = ms.comps
		} else {
			v, err := envPre.compileVal(t.X)
			if err != nil {
				return fmt.Errorf("%s: assigns of %s: %v", vc.key, key, err)
			}
			if v.Ty == nil {
				return fmt.Errorf("%s: assigns target %s of %s has no Go type", vc.key, t.Src, key)
			}
			ms := newModSet()
			switch t.Kind {
			case "field":
				i, ok := fieldIndexByName(v.Ty, t.Sel)
				if !ok {
					return fmt.Errorf("%s: target-exists: %s of %s", vc.key, t.Src, key)
				}
				vc.msField(ms, v.Ty, i)
			case "allfields":
				base := v.Ty
				if p, ok := base.Underlying().(*types.Pointer); ok {
					base = p.Elem()
				}
				vc.structMods(base, ms)
			case "contents":
				switch u := v.Ty.Underlying().(type) {
				case *types.Map:
					vc.msMap(ms, u)
				case *types.Slice:
					vc.msElem(ms, u.Elem())
				}
			}
			comps = ms.comps
		}
		for comp, srt := range comps {
			u := ups[comp]
			if u == nil {
				u = &upd{sort: srt}
				ups[comp] = u
			}
			refs, err := vc.targetRefs(envPre, t, comp)
			if err != nil {
				return err
			}
			for _, r := range refs {
				if r == "*" {
					u.all = true
				} else {
					u.refs = append(u.refs, r)
				}
			}
		}
	}
	// the callee may allocate
	old := st.allocTop
	st.allocTop = vc.declare("allocTop", "Int")
	vc.assume(st, sx("<=", old, st.allocTop))
	for _, comp := range sortedKeys(ups) {
		u := ups[comp]
		cur := vc.heapGet(pre, comp, u.sort)
		if u.all || !strings.HasPrefix(u.sort, "(Array Int ") {
			if vc.spec.HasAssigns && !vc.callerAllowsAll(comp) {
				vc.assignsOb(st, "false", "call of "+key+" writes all of "+comp)
			}
			st.heap[comp] = vc.declare(comp+"_call", u.sort)
			vc.closed(st.heap[comp], comp, u.sort, st.allocTop)
			continue
		}
		for _, r := range u.refs {
			vc.writeCheck(st, comp, r)
		}
		// new array: equal to the old one except at the target refs and at objects allocated by the callee
		nw := vc.declare(comp+"_call", u.sort)
		q := vc.fresh("o")
		ex := []string{sx(">", q, old)}
		for _, r := range u.refs {
			ex = append(ex, sx("=", q, r))
		}
		vc.assume(st, fmt.Sprintf("(forall ((%s Int)) (! (=> (not %s) (= (select %s %s) (select %s %s))) :pattern ((select %s %s))))",
			q, smtOr(ex...), nw, q, cur, q, nw, q))
		st.heap[comp] = nw
		vc.decl["§"+comp] = u.sort
		vc.closed(nw, comp, u.sort, st.allocTop)
	}
	// objects allocated by the callee may have any content in every component; whatever it is, it refers only to
	// objects that exist after the call
	vc.closeAll(st)
	vc.assumeGlobals(st)
	return nil
}

// callerAllowsAll: the function under verification declares a target that covers every object of comp.
func (vc *VC) callerAllowsAll(comp string) bool {
	env := vc.baseEnv(vc.entry)
	for _, t := range vc.spec.Assigns {
		refs, err := vc.targetRefs(env, t, comp)
		if err != nil {
			continue
		}
		for _, r := range refs {
			if r == "*" {
				return true
			}
		}
	}
	return false
}

// tryInline executes a small straight-line module function without contract (getters, setters, thin
// wrappers) in place: its single block is run on the caller's state with the parameters bound to the
// arguments. The verified text stays the code that runs; no annotation is needed for such functions.
func (vc *VC) tryInline(st *State, resV ssa.Value, callee *ssa.Function, args []ssa.Value) (bool, error) {
	if !inModule(callee) || len(callee.Blocks) == 0 || len(callee.Blocks) > 2 || vc.inlineDepth >= 4 {
		return false, nil
	}
	b := callee.Blocks[0]
	if len(b.Instrs) == 0 || len(b.Instrs) > 60 {
		return false, nil
	}
	ret, ok := b.Instrs[len(b.Instrs)-1].(*ssa.Return)
	if !ok {
		return false, nil
	}
	if len(callee.Blocks) == 2 && (len(callee.Blocks[1].Preds) != 0) {
		return false, nil // second block must be the unreachable recover block
	}
	for _, ins := range b.Instrs {
		switch x := ins.(type) {
		case *ssa.Alloc, *ssa.Store, *ssa.UnOp, *ssa.BinOp, *ssa.FieldAddr, *ssa.Field, *ssa.Convert, *ssa.ChangeType,
			*ssa.RunDefers, *ssa.Return, *ssa.DebugRef, *ssa.MakeInterface, *ssa.ChangeInterface, *ssa.Lookup, *ssa.Extract, *ssa.IndexAddr:
			if u, ok := ins.(*ssa.UnOp); ok && u.Op == token.ARROW {
				return false, nil
			}
		case *ssa.Call:
			if !vc.inlineableCall(&x.Call) {
				return false, nil
			}
		case *ssa.Defer:
			if !vc.inlineableCall(&x.Call) {
				return false, nil
			}
		default:
			return false, nil
		}
	}
	if len(args) != len(callee.Params) {
		return false, nil
	}
	for i, p := range callee.Params {
		vc.vals[p] = vc.val(st, args[i])
		if a, ok := vc.addrs[args[i]]; ok {
			vc.addrs[p] = a
		}
	}
	saved := st.defers
	st.defers = nil
	vc.inlineDepth++
	defer func() { vc.inlineDepth--; st.defers = saved }()
	vc.note("inlined " + funcKey(callee))
	for _, ins := range b.Instrs[:len(b.Instrs)-1] {
		if err := vc.exec(st, ins); err != nil {
			return true, err
		}
	}
	if resV != nil {
		switch len(ret.Results) {
		case 0:
		case 1:
			vc.vals[resV] = vc.val(st, ret.Results[0])
			if a, ok := vc.addrs[ret.Results[0]]; ok {
				vc.addrs[resV] = a
			}
		default:
			var ts []string
			for _, r := range ret.Results {
				ts = append(ts, vc.val(st, r))
			}
			vc.tuples[resV] = ts
		}
	}
	return true, nil
}

func (vc *VC) inlineableCall(c *ssa.CallCommon) bool {
	if b, ok := c.Value.(*ssa.Builtin); ok {
		switch b.Name() {
		case "len", "cap", "ssa:deferstack", "ssa:wrapnilchk", "min", "max":
			return true
		}
		return false
	}
	if c.IsInvoke() {
		return false
	}
	callee := c.StaticCallee()
	if callee == nil {
		return false
	}
	if vc.isDropped(callee) || vc.cs.Funcs[funcKey(callee)] != nil {
		return true
	}
	// nested small function: decided when it is reached (falls back to a mod-set havoc, which is sound)
	return inModule(callee)
}

// appendAnchor names the destination of an append: "Type.field" for x.f = append(x.f, ...), the local's name for a
// named local slice.
func appendAnchor(dst ssa.Value) string {
	u, ok := dst.(*ssa.UnOp)
	if !ok {
		return ""
	}
	switch a := u.X.(type) {
	case *ssa.FieldAddr:
		n := fieldName(a.X.Type(), a.Field)
		return n
	case *ssa.Alloc:
		if a.Comment != "" {
			return a.Comment
		}
	}
	return ""
}

func (vc *VC) appendSites(st *State, anchor string, ord int, elem Val) error {
	for _, ss := range vc.spec.Sites {
		if ss.AnchorKind != "append" || ss.Anchor != anchor || (ss.N != 0 && ss.N != ord) {
			continue
		}
		vc.siteHits[ss]++
		env := vc.baseEnv(st)
		vc.localVars(st, env.vars, nil)
		env.vars["elem"] = elem
		t, err := env.compileBool(ss.Clause.E)
		if err != nil {
			return fmt.Errorf("%s: site append %s#%d: %v", vc.key, anchor, ord, err)
		}
		if ss.IsAssume {
			vc.assume(st, t)
			continue
		}
		name := fmt.Sprintf("site@append(%s)#%d", anchor, ord)
		if ss.Clause.Label != "" {
			name += "[" + ss.Clause.Label + "]"
		}
		vc.coverOnce(st, "cover."+name)
		vc.oblige(st, name, "site", t, ss.Clause.Text, ss.Clause.Props)
	}
	return nil
}

// fnValueName names a called function value for site anchors and ghost counters ("fn.<name>"): the parameter, local,
// captured variable or struct field that holds it; "" when it has no stable name.
func fnValueName(v ssa.Value) string {
	switch fv := v.(type) {
	case *ssa.Parameter:
		return fv.Name()
	case *ssa.FreeVar:
		return fv.Name()
	case *ssa.UnOp:
		if a, ok := fv.X.(*ssa.Alloc); ok {
			return a.Comment
		} else if fvv, ok := fv.X.(*ssa.FreeVar); ok {
			return fvv.Name()
		} else if fa, ok := fv.X.(*ssa.FieldAddr); ok {
			// a function value held in a struct field (m.queueFn): anchored by the field name
			if pt, ok := fa.X.Type().Underlying().(*types.Pointer); ok {
				if stt, ok := pt.Elem().Underlying().(*types.Struct); ok {
					return stt.Field(fa.Field).Name()
				}
			}
		}
	}
	return ""
}
