package main

import (
	"fmt"
	"os"
	"sort"
	"strings"
)

func main() {
	// the repository needs go >= 1.25: make the pre-installed go1.26.8 the `go` that go/packages runs
	os.Setenv("PATH", "/opt/veriftools/go1.26.8/bin:"+os.Getenv("PATH"))
	os.Setenv("GOTOOLCHAIN", "local")
	os.Setenv("GOPROXY", "off")
	os.Setenv("GOSUMDB", "off")
	os.Setenv("GOFLAGS", "-mod=mod")
	if len(os.Args) < 2 {
		fmt.Fprintln(os.Stderr, "usage: govc <ssadump|verify|selfcheck> ...")
		os.Exit(2)
	}
	switch os.Args[1] {
	case "ssadump":
		w, err := loadWorld(os.Args[2])
		if err != nil {
			fmt.Fprintln(os.Stderr, err)
			os.Exit(2)
		}
		for _, k := range os.Args[3:] {
			fn := w.lookupFunc(k)
			if fn == nil {
				fmt.Println("not found:", k)
				continue
			}
			fn.WriteTo(os.Stdout)
			for _, af := range fn.AnonFuncs {
				af.WriteTo(os.Stdout)
			}
		}
	case "gaps":
		// functions of the module that write scheduler state directly and carry no contract (coverage planning aid)
		w, err := loadWorld("./pkg/...")
		if err != nil {
			fmt.Fprintln(os.Stderr, err)
			os.Exit(2)
		}
		cs, err := loadContracts(w.RepoDir, "/verif/contracts/assumed")
		if err != nil {
			fmt.Fprintln(os.Stderr, err)
			os.Exit(2)
		}
		ms := modsetAnalysis(w, cs)
		var lines []string
		for fn, e := range ms.direct {
			k := funcKey(fn)
			if cs.Funcs[k] != nil || len(e.comps) == 0 {
				continue
			}
			if len(os.Args) > 2 && !strings.HasPrefix(k, os.Args[2]) {
				continue
			}
			lines = append(lines, k+": "+strings.Join(sortedKeys(e.comps), " "))
		}
		sort.Strings(lines)
		for _, l := range lines {
			fmt.Println(l)
		}
	case "modset":
		w, err := loadWorld("./pkg/...")
		if err != nil {
			fmt.Fprintln(os.Stderr, err)
			os.Exit(2)
		}
		cs, err := loadContracts(w.RepoDir, "/verif/contracts/assumed")
		if err != nil {
			fmt.Fprintln(os.Stderr, err)
			os.Exit(2)
		}
		ms := modsetAnalysis(w, cs)
		for _, k := range os.Args[2:] {
			fn := w.lookupFunc(k)
			if fn == nil {
				fmt.Println("not found:", k)
				continue
			}
			e := ms.eff[fn]
			fmt.Println(k, "writes:")
			for _, c := range sortedKeys(e.comps) {
				fmt.Println("   ", c)
			}
		}
	default:
		os.Exit(cmdMain(os.Args[1:]))
	}
}
