package main

import (
	"fmt"
	"go/token"
	"go/types"
	"sort"
	"strings"

	"golang.org/x/tools/go/ssa"
)

// Obligation is one named proof obligation: all commands before Pos are its
// hypotheses, Goal is what must follow.
type Obligation struct {
	Name   string
	Kind   string
	Func   string
	Pos    int
	Goal   string
	Props  []string
	Text   string // contract text or description
	Src    string // file:line of the code location (informational only)
	Cmds   []string
	Hint   *ReplayHint
	Result *SolveResult
	Cover  bool // reachability cover: must be SAT
}

type ReplayHint struct {
	Params  []string          // SMT names of parameters in order
	Results []string          // SMT terms of the returned values (ensures obligations)
	Reach   string            // reachability term of the return the obligation belongs to
	Extra   map[string]string // label -> SMT term to query in the model
}

// State is the symbolic state at one program point.
type State struct {
	reach    string
	heap     map[string]string
	cells    map[*ssa.Alloc]string
	allocTop string
	epoch    int
	iters    map[ssa.Value]string // map-range iterator -> seen set
	defers   []*ssa.Defer
	fcells   map[*ssa.FreeVar]string // captured variables of a function literal (cells of the enclosing function)
	iter     *State                  // state at the head of the innermost enclosing loop (for iter(e) in site assertions)
}

func (s *State) clone() *State {
	n := &State{reach: s.reach, allocTop: s.allocTop, epoch: s.epoch, iter: s.iter,
		heap: make(map[string]string, len(s.heap)), cells: make(map[*ssa.Alloc]string, len(s.cells)),
		iters: make(map[ssa.Value]string, len(s.iters))}
	for k, v := range s.heap {
		n.heap[k] = v
	}
	for k, v := range s.cells {
		n.cells[k] = v
	}
	for k, v := range s.iters {
		n.iters[k] = v
	}
	if s.fcells != nil {
		n.fcells = make(map[*ssa.FreeVar]string, len(s.fcells))
		for k, v := range s.fcells {
			n.fcells[k] = v
		}
	}
	n.defers = append([]*ssa.Defer(nil), s.defers...)
	return n
}

// Addr is a symbolic address (SSA pointer values that are not plain object refs).
type Addr struct {
	Kind string // cell | field | elem | global | obj
	Cell *ssa.Alloc
	Comp string // heap component for field / elem / global
	Sort string // sort of the stored value
	Ref  string // object / backing array ref
	Idx  string // element index
	Typ  types.Type
	Sub  bool // storage embedded in another object (never nil by itself)
	FV   *ssa.FreeVar
}

type rangeInfo struct {
	mapTerm string
	mapType *types.Map
	isMap   bool
	instr   *ssa.Range
}

type VC struct {
	w            *World
	cs           *Contracts
	ms           *ModSets
	fn           *ssa.Function
	spec         *FuncSpec
	key          string
	sendOrd      int                 // ordinal of channel sends (site anchors 'at send chan#n')
	inlineAllocs map[*ssa.Alloc]bool // cells allocated while executing an inlined callee
	covered      map[string]bool     // reachability covers already emitted (position|reach)
	subTags      int
	closePts     [][3]string         // (allocTop, reach, epoch) of the heap-closure points emitted so far (closeAll)

	cmds   []string
	decl   map[string]string // symbol -> sort (declared)
	nfresh int
	obls   []*Obligation

	vals   map[ssa.Value]string
	tuples map[ssa.Value][]string
	addrs  map[ssa.Value]*Addr
	ranges map[ssa.Value]*rangeInfo
	strs   map[string]string
	flits  map[string]string

	entry      *State
	paramTerms []string
	paramVals  map[string]Val
	allocBase  string

	loops                                map[*ssa.BasicBlock]*loopInfo
	loopOrd                              map[*ssa.BasicBlock]int
	curBlock                             *ssa.BasicBlock
	notes                                map[string]bool
	unsupp                               map[string]bool
	assumedUse                           map[string]bool // assumed contracts / abstractions used
	callOrd                              map[string]int  // callee key -> count so far (anchors)
	panicOrd                             map[string]int
	sumDefs                              map[string]bool
	curPos                               token.Pos
	inlineDepth                          int
	retOrd, assignOrd, convOrd, noInsOrd int
	closures                             map[ssa.Value]*ssa.MakeClosure
	edgeReach                            map[[2]int]string
	compType                             map[string]types.Type // component -> Go type of the stored value
	epochTop                             map[int]string        // epoch -> allocTop when it started
	siteHits                             map[*SiteSpec]int
	faOrd                                map[*ssa.FieldAddr]int
	srcOrd                               map[*ssa.CallCommon]int // ordinal of a static call among the calls of the same callee, in source order
	defined                              map[string]bool         // names introduced by define-fun (macros, not constants)
	patAlias                             map[string]string
	allocSeq                             map[*ssa.Alloc]int
	allocCount                           int
	nameCount                            map[string]int
	namedObjs                            map[string]Val // named struct-typed locals (their storage object)
}

type loopInfo struct {
	head   *ssa.BasicBlock
	body   map[*ssa.BasicBlock]bool
	latch  []*ssa.BasicBlock
	ord    int
	minPos token.Pos
	// set while processing
	headState *State
	preState  *State
	spec      *LoopSpec
	env       func(st *State) *Env
}

func newVC(w *World, cs *Contracts, ms *ModSets, fn *ssa.Function, spec *FuncSpec) *VC {
	vc := &VC{w: w, cs: cs, ms: ms, fn: fn, spec: spec, key: funcKey(fn),
		decl: map[string]string{}, vals: map[ssa.Value]string{}, tuples: map[ssa.Value][]string{},
		addrs: map[ssa.Value]*Addr{}, ranges: map[ssa.Value]*rangeInfo{}, strs: map[string]string{}, flits: map[string]string{},
		notes: map[string]bool{}, unsupp: map[string]bool{}, assumedUse: map[string]bool{},
		callOrd: map[string]int{}, panicOrd: map[string]int{}, sumDefs: map[string]bool{},
		closures: map[ssa.Value]*ssa.MakeClosure{}, edgeReach: map[[2]int]string{},
		epochTop: map[int]string{}, siteHits: map[*SiteSpec]int{}, defined: map[string]bool{}, patAlias: map[string]string{}, allocSeq: map[*ssa.Alloc]int{}, nameCount: map[string]int{}, namedObjs: map[string]Val{}}
	if w.compType == nil {
		w.compType = map[string]types.Type{}
	}
	vc.compType = w.compType
	vc.prelude()
	return vc
}

func (vc *VC) prelude() {
	vc.emit("(declare-sort Str 0)")
	vc.emit("(declare-fun str_concat (Str Str) Str)")
	vc.emit("(declare-fun str_len (Str) Int)")
	vc.emit("(declare-fun str_lt (Str Str) Bool)")
	// Go's string comparison is a strict total order
	vc.emit("(assert (forall ((a Str)) (! (not (str_lt a a)) :pattern ((str_lt a a)))))")
	vc.emit("(assert (forall ((a Str) (b Str)) (! (=> (str_lt a b) (not (str_lt b a))) :pattern ((str_lt a b)))))")
	vc.emit("(assert (forall ((a Str) (b Str) (c Str)) (! (=> (and (str_lt a b) (str_lt b c)) (str_lt a c)) :pattern ((str_lt a b) (str_lt b c)))))")
	vc.emit("(assert (forall ((a Str) (b Str)) (! (or (str_lt a b) (str_lt b a) (= a b)) :pattern ((str_lt a b)))))")
	vc.emit("(declare-const str_empty Str)")
	vc.emit("(assert (= (str_len str_empty) 0))")
	vc.emit("(assert (forall ((s Str)) (! (>= (str_len s) 0) :pattern ((str_len s)))))")
	vc.emit("(assert (forall ((s Str)) (! (=> (= (str_len s) 0) (= s str_empty)) :pattern ((str_len s)))))")
	vc.emit("(define-fun clamp64 ((x Int)) Int (ite (> x 9223372036854775807) 9223372036854775807 (ite (< x (- 9223372036854775808)) (- 9223372036854775808) x)))")
	vc.emit("(define-fun imin ((x Int) (y Int)) Int (ite (<= x y) x y))")
	vc.emit("(define-fun imax ((x Int) (y Int)) Int (ite (>= x y) x y))")
	vc.emit("(define-fun iabs ((x Int)) Int (ite (>= x 0) x (- x)))")
	vc.emit("(define-fun tdiv ((a Int) (b Int)) Int (ite (>= a 0) (div a b) (- (div (- a) b))))")
	vc.emit("(define-fun tmod ((a Int) (b Int)) Int (- a (* b (tdiv a b))))")
	// slices
	vc.emit("(declare-fun slen (Int) Int)")
	vc.emit("(declare-fun scap (Int) Int)")
	vc.emit("(declare-fun sbase (Int) Int)")
	vc.emit("(declare-fun soff (Int) Int)")
	vc.emit("(assert (and (= (slen 0) 0) (= (scap 0) 0) (= (sbase 0) 0) (= (soff 0) 0)))")
	// dynamic types of interface values
	vc.emit("(declare-fun dyntype (Int) Int)")
	// float helpers (non-FP mode: reals, arithmetic uninterpreted)
	vc.emit("(declare-fun f_add (Real Real) Real)")
	vc.emit("(declare-fun f_sub (Real Real) Real)")
	vc.emit("(declare-fun f_mul (Real Real) Real)")
	vc.emit("(declare-fun f_div (Real Real) Real)")
	vc.emit("(declare-fun i2f (Int) Real)")
	vc.emit("(declare-fun f2i (Real) Int)")
	vc.emit("(declare-fun bitop (Int Int Int) Int)")
}

func (vc *VC) emit(s string) { vc.cmds = append(vc.cmds, s) }

func (vc *VC) fresh(hint string) string {
	vc.nfresh++
	return fmt.Sprintf("%s!%d", sanitize(hint), vc.nfresh)
}

func (vc *VC) declare(hint, sort string) string {
	n := vc.fresh(hint)
	vc.emit(fmt.Sprintf("(declare-const %s %s)", n, sort))
	vc.decl[n] = sort
	return n
}

// declareNamed declares a const with an exact name once.
func (vc *VC) declareNamed(name, sort string) string {
	if _, ok := vc.decl[name]; !ok {
		vc.emit(fmt.Sprintf("(declare-const %s %s)", name, sort))
		vc.decl[name] = sort
	}
	return name
}

func (vc *VC) declareFun(name string, args []string, ret string) string {
	if _, ok := vc.decl[name]; !ok {
		vc.emit(fmt.Sprintf("(declare-fun %s (%s) %s)", name, strings.Join(args, " "), ret))
		vc.decl[name] = "fun"
	}
	return name
}

// subFun declares the function mapping an object to the storage of a struct (array) field embedded in it. Distinct
// objects have distinct embedded storage (injective), and storage embedded through different fields is distinct
// (every sub-object ref carries the tag of the field it was reached through).
func (vc *VC) subFun(comp string) string {
	name := "sub_" + comp
	if _, ok := vc.decl[name]; ok {
		return name
	}
	vc.declareFun(name, []string{"Int"}, "Int")
	vc.declareFun("subinv_"+comp, []string{"Int"}, "Int")
	vc.declareFun("subtag", []string{"Int"}, "Int")
	vc.subTags++
	vc.emit(fmt.Sprintf("(assert (forall ((o Int)) (! (and (= (subinv_%s (%s o)) o) (= (subtag (%s o)) %d)) :pattern ((%s o)))))", comp, name, name, vc.subTags, name))
	return name
}

func (vc *VC) define(hint, sort, term string) string {
	// short atoms need no name
	if !strings.ContainsAny(term, " (") {
		return term
	}
	n := vc.fresh(hint)
	vc.emit(fmt.Sprintf("(define-fun %s () %s %s)", n, sort, term))
	vc.decl[n] = sort
	vc.defined[n] = true
	return n
}

func (vc *VC) assert(t string) {
	if t == "true" {
		return
	}
	vc.emit("(assert " + t + ")")
}

func (vc *VC) assume(st *State, t string) {
	if t == "true" {
		return
	}
	vc.assert(smtImp(st.reach, t))
}

func (vc *VC) note(s string) { vc.notes[s] = true }

func (vc *VC) srcPos() string {
	if vc.curPos.IsValid() {
		p := vc.w.Fset.Position(vc.curPos)
		return fmt.Sprintf("%s:%d", strings.TrimPrefix(p.Filename, vc.w.RepoDir+"/"), p.Line)
	}
	return ""
}

func (vc *VC) oblige(st *State, name, kind, goal, text string, props []string) *Obligation {
	if len(props) == 0 && vc.spec != nil {
		props = vc.spec.Props
	}
	// obligation names are file names and identities: never let two obligations share one
	vc.nameCount[name]++
	if n := vc.nameCount[name]; n > 1 {
		name = fmt.Sprintf("%s~%d", name, n)
	}
	o := &Obligation{Name: vc.key + ":" + name, Kind: kind, Func: vc.key, Pos: len(vc.cmds),
		Goal: smtImp(st.reach, goal), Props: props, Text: text, Src: vc.srcPos()}
	vc.obls = append(vc.obls, o)
	// later obligations may use it
	vc.assert(o.Goal)
	return o
}

// coverOnce adds a reachability cover for the state unless one with the same reachability term at the same position in
// the command stream exists already (several site assertions at one anchor share a state).
func (vc *VC) coverOnce(st *State, name string) {
	k := fmt.Sprintf("%d|%s", len(vc.cmds), st.reach)
	if vc.covered == nil {
		vc.covered = map[string]bool{}
	}
	if vc.covered[k] || st.reach == "true" {
		return
	}
	vc.covered[k] = true
	vc.nameCount["cover:"+name]++
	if n := vc.nameCount["cover:"+name]; n > 1 {
		name = fmt.Sprintf("%s~%d", name, n)
	}
	vc.cover(st, name)
}

func (vc *VC) cover(st *State, name string) {
	o := &Obligation{Name: vc.key + ":" + name, Kind: "cover", Func: vc.key, Pos: len(vc.cmds),
		Goal: smtNot(st.reach), Cover: true, Text: "reachability cover (must be satisfiable)", Src: vc.srcPos()}
	if vc.spec != nil {
		o.Props = vc.spec.Props
	}
	vc.obls = append(vc.obls, o)
}

// ---------------------------------------------------------------- sorts

func (vc *VC) floatSort() string {
	if vc.spec != nil && vc.spec.FloatFP {
		return "(_ FloatingPoint 11 53)"
	}
	return "Real"
}

func (vc *VC) sortOf(t types.Type) string {
	switch u := t.Underlying().(type) {
	case *types.Basic:
		switch {
		case u.Info()&types.IsBoolean != 0:
			return "Bool"
		case u.Info()&types.IsInteger != 0:
			return "Int"
		case u.Info()&types.IsString != 0:
			return "Str"
		case u.Info()&types.IsFloat != 0:
			return vc.floatSort()
		case u.Kind() == types.UnsafePointer || u.Kind() == types.UntypedNil:
			return "Int"
		}
		return "Int"
	default:
		return "Int"
	}
}

func typeName(t types.Type) string {
	switch u := t.(type) {
	case *types.Named:
		if u.Obj().Pkg() != nil {
			return u.Obj().Pkg().Name() + "_" + u.Obj().Name()
		}
		return u.Obj().Name()
	case *types.Alias:
		return typeName(types.Unalias(u))
	case *types.Pointer:
		return "P" + typeName(u.Elem())
	case *types.Slice:
		return "S" + typeName(u.Elem())
	case *types.Array:
		return fmt.Sprintf("A%d%s", u.Len(), typeName(u.Elem()))
	case *types.Map:
		return "M" + typeName(u.Key()) + "_" + typeName(u.Elem())
	case *types.Basic:
		return u.Name()
	case *types.Struct:
		return "anonstruct"
	case *types.Interface:
		return "iface"
	case *types.Signature:
		return "func"
	case *types.Chan:
		return "chan"
	}
	return sanitize(t.String())
}

func (vc *VC) zeroOf(t types.Type) string {
	switch vc.sortOf(t) {
	case "Bool":
		return "false"
	case "Str":
		return "str_empty"
	case "Real":
		return "0.0"
	case "(_ FloatingPoint 11 53)":
		return "(_ +zero 11 53)"
	}
	return "0"
}

func zeroOfSort(s string) string {
	switch s {
	case "Bool":
		return "false"
	case "Str":
		return "str_empty"
	case "Real":
		return "0.0"
	case "(_ FloatingPoint 11 53)":
		return "(_ +zero 11 53)"
	}
	return "0"
}

// ---------------------------------------------------------------- heap components

func (vc *VC) compSort(comp string) string { return vc.decl["§"+comp] }

// heapGet returns the current term for a component, creating the entry
// (epoch) constant on demand.
func (vc *VC) heapGet(st *State, comp, sort string) string {
	if _, ok := vc.decl["§"+comp]; !ok {
		vc.decl["§"+comp] = sort
	}
	if t, ok := st.heap[comp]; ok {
		return t
	}
	name := fmt.Sprintf("%s@%d", comp, st.epoch)
	if _, ok := vc.decl[name]; !ok {
		vc.declareNamed(name, sort)
		if strings.HasPrefix(comp, "N_") && st.epoch == 0 {
			vc.emit("(assert (= " + name + " 0))") // ghost call counters start at zero
		}
		top := vc.epochTop[st.epoch]
		if top == "" {
			top = vc.allocBase
		}
		vc.closed(name, comp, sort, top)
		// the component was not touched since the epoch began, so it is also closed at the current allocation top:
		// objects allocated since (by callees) only hold references to objects that exist now
		if st.allocTop != "" && st.allocTop != top {
			vc.closedGuard(name, comp, sort, st.allocTop, st.reach)
		}
		for _, cp := range vc.closePts {
			if cp[2] == fmt.Sprint(st.epoch) && cp[0] != top && cp[0] != st.allocTop {
				vc.closedGuard(name, comp, sort, cp[0], cp[1])
			}
		}
	}
	return name
}

func isRefType(t types.Type) bool {
	switch t.Underlying().(type) {
	case *types.Pointer, *types.Map, *types.Interface, *types.Chan, *types.Signature:
		return true
	}
	return false
}

// closed emits the heap-closure fact for a freshly declared version of a component: objects
// allocated at that time only point to objects allocated at that time.
func (vc *VC) closed(name, comp, sort, top string) {
	vc.closedGuard(name, comp, sort, top, "")
}

func (vc *VC) closedGuard(name, comp, sort, top, guard string) {
	ty := vc.compType[comp]
	if ty == nil || top == "" {
		return
	}
	_, isSlice := ty.Underlying().(*types.Slice)
	if !isRefType(ty) && !isSlice {
		return
	}
	wrap := func(x string) string {
		if isSlice {
			return sx("sbase", x)
		}
		return x
	}
	g := func(body string) string {
		if guard == "" || guard == "true" {
			return "(assert " + body + ")"
		}
		return "(assert (=> " + guard + " " + body + "))"
	}
	switch {
	case strings.HasPrefix(comp, "F_"):
		vc.emit(g(fmt.Sprintf("(forall ((o Int)) (! (=> (<= o %s) (<= %s %s)) :pattern ((select %s o))))", top, wrap(sx("select", name, "o")), top, name)))
	case strings.HasPrefix(comp, "G_"):
		vc.emit(g(fmt.Sprintf("(<= %s %s)", wrap(name), top)))
	case strings.HasPrefix(comp, "Mval_"):
		// sort is (Array Int (Array K V))
		inner := strings.TrimSuffix(strings.TrimPrefix(sort, "(Array Int "), ")")
		k := strings.Fields(strings.TrimPrefix(inner, "(Array "))[0]
		vc.emit(g(fmt.Sprintf("(forall ((o Int) (k %s)) (! (=> (<= o %s) (<= %s %s)) :pattern ((select (select %s o) k))))", k, top, wrap(sx("select", sx("select", name, "o"), "k")), top, name)))
	case strings.HasPrefix(comp, "E_"):
		vc.emit(g(fmt.Sprintf("(forall ((o Int) (i Int)) (! (=> (<= o %s) (<= %s %s)) :pattern ((select (select %s o) i))))", top, wrap(sx("select", sx("select", name, "o"), "i")), top, name)))
	}
}

// closeAll states, for every reference-valued component known so far, that in state st objects allocated up to
// now only point to objects allocated up to now. Used after calls: objects the callee allocated carry values in
// components outside its assigns clause (their initial field values); those values cannot refer to objects
// that do not exist yet.
func (vc *VC) closeAll(st *State) {
	var comps []string
	for k := range vc.decl {
		if strings.HasPrefix(k, "§") {
			comps = append(comps, strings.TrimPrefix(k, "§"))
		}
	}
	sort.Strings(comps)
	top := st.allocTop
	// remember this closure point: a component that is first mentioned later was untouched here, so it was closed too
	if n := len(vc.closePts); n == 0 || vc.closePts[n-1] != [3]string{top, st.reach, fmt.Sprint(st.epoch)} {
		dup := false
		for _, cp := range vc.closePts {
			if cp[0] == top && cp[2] == fmt.Sprint(st.epoch) {
				dup = true
			}
		}
		if !dup {
			vc.closePts = append(vc.closePts, [3]string{top, st.reach, fmt.Sprint(st.epoch)})
		}
	}
	for _, comp := range comps {
		ty := vc.compType[comp]
		if ty == nil {
			continue
		}
		_, isSlice := ty.Underlying().(*types.Slice)
		if !isRefType(ty) && !isSlice {
			continue
		}
		srt := vc.decl["§"+comp]
		name := vc.heapGet(st, comp, srt)
		if _, isConst := vc.decl[name]; !isConst || vc.defined[name] {
			// patterns need a plain constant: name the current version
			alias := vc.declare(comp+"_now", srt)
			vc.assert(sx("=", alias, name))
			name = alias
		}
		wrap := func(x string) string {
			if isSlice {
				return sx("sbase", x)
			}
			return x
		}
		var q string
		switch {
		case strings.HasPrefix(comp, "F_"):
			q = fmt.Sprintf("(forall ((o Int)) (! (=> (<= o %s) (<= %s %s)) :pattern ((select %s o))))", top, wrap(sx("select", name, "o")), top, name)
		case strings.HasPrefix(comp, "Mval_"):
			inner := strings.TrimSuffix(strings.TrimPrefix(srt, "(Array Int "), ")")
			k := strings.Fields(strings.TrimPrefix(inner, "(Array "))[0]
			q = fmt.Sprintf("(forall ((o Int) (k %s)) (! (=> (<= o %s) (<= %s %s)) :pattern ((select (select %s o) k))))", k, top, wrap(sx("select", sx("select", name, "o"), "k")), top, name)
		case strings.HasPrefix(comp, "E_"):
			q = fmt.Sprintf("(forall ((o Int) (i Int)) (! (=> (<= o %s) (<= %s %s)) :pattern ((select (select %s o) i))))", top, wrap(sx("select", sx("select", name, "o"), "i")), top, name)
		default:
			continue
		}
		vc.assume(st, q)
	}
}

func (vc *VC) heapSet(st *State, comp, sort, term string) {
	if _, ok := vc.decl["§"+comp]; !ok {
		vc.decl["§"+comp] = sort
	}
	st.heap[comp] = vc.define(comp, sort, term)
}

func fieldComp(T *types.Named, f *types.Var) string {
	return "F_" + typeName(T) + "_" + f.Name()
}

func (vc *VC) fieldCompOf(structPtrOrStruct types.Type, idx int) (comp, sort string, fld *types.Var) {
	t := structPtrOrStruct
	if p, ok := t.Underlying().(*types.Pointer); ok {
		t = p.Elem()
	}
	st, _ := t.Underlying().(*types.Struct)
	fld = st.Field(idx)
	name := typeName(t)
	comp = "F_" + name + "_" + fld.Name()
	sort = "(Array Int " + vc.sortOf(fld.Type()) + ")"
	vc.compType[comp] = fld.Type()
	return
}

func (vc *VC) mapComps(mt *types.Map) (dom, val, ks, vs string) {
	ks, vs = vc.sortOf(mt.Key()), vc.sortOf(mt.Elem())
	n := typeName(mt.Key()) + "_" + typeName(mt.Elem())
	vc.compType["Mval_"+n] = mt.Elem()
	return "Mdom_" + n, "Mval_" + n, ks, vs
}

func (vc *VC) elemComp(et types.Type) (comp, es string) {
	es = vc.sortOf(et)
	vc.compType["E_"+typeName(et)] = et
	return "E_" + typeName(et), es
}

// typeFacts returns facts that hold for every value of Go type t in state st.
func (vc *VC) typeFacts(st *State, x string, t types.Type) string {
	switch u := t.Underlying().(type) {
	case *types.Basic:
		if u.Info()&types.IsInteger != 0 {
			return inRange(x, t)
		}
		return "true"
	case *types.Pointer, *types.Map, *types.Interface, *types.Chan, *types.Signature, *types.Struct, *types.Array:
		// struct / array values are refs to snapshots that exist in the heap of this state
		return sx("and", sx("<=", "0", x), sx("<=", x, st.allocTop))
	case *types.Slice:
		return sx("and", sx("<=", "0", sx("slen", x)), sx("<=", sx("slen", x), sx("scap", x)), sx("<=", sx("scap", x), "4611686018427387904"), sx("<=", "0", sx("soff", x)),
			sx("<=", "0", sx("sbase", x)), sx("<=", sx("sbase", x), st.allocTop), sx("=>", sx("=", x, "0"), sx("=", sx("slen", x), "0")))
	}
	return "true"
}

func (vc *VC) assumeType(st *State, x string, t types.Type) {
	f := vc.typeFacts(st, x, t)
	if f != "true" {
		vc.assume(st, f)
	}
}

// newRef allocates a fresh object reference.
func (vc *VC) newRef(st *State, hint string) string {
	r := vc.define(hint, "Int", sx("+", st.allocTop, "1"))
	st.allocTop = r
	return r
}

// havocAll forgets the whole heap.
func (vc *VC) havocAll(st *State, why string) {
	vc.nfresh++
	st.epoch = vc.nfresh
	st.heap = map[string]string{}
	old := st.allocTop
	st.allocTop = vc.declare("allocTop", "Int")
	vc.epochTop[st.epoch] = st.allocTop
	vc.assume(st, sx("<=", old, st.allocTop))
	vc.note("havoc-all: " + why)
}

// ---------------------------------------------------------------- strings / floats

func (vc *VC) strLit(s string) string {
	if s == "" {
		return "str_empty"
	}
	if n, ok := vc.strs[s]; ok {
		return n
	}
	n := fmt.Sprintf("strlit_%d_%s", len(vc.strs), sanitize(truncate(s, 24)))
	vc.emit(fmt.Sprintf("(declare-const %s Str)", n))
	// distinct from all earlier literals and from the empty string; length known
	for _, o := range vc.strs {
		vc.emit(fmt.Sprintf("(assert (distinct %s %s))", n, o))
	}
	vc.emit(fmt.Sprintf("(assert (= (str_len %s) %d))", n, len(s)))
	vc.strs[s] = n
	return n
}

func truncate(s string, n int) string {
	if len(s) > n {
		return s[:n]
	}
	return s
}

// ---------------------------------------------------------------- merging

type inEdge struct {
	from *ssa.BasicBlock
	st   *State
}

func (vc *VC) merge(edges []inEdge, hint string) *State {
	if len(edges) == 1 {
		return edges[0].st.clone()
	}
	out := &State{heap: map[string]string{}, cells: map[*ssa.Alloc]string{}, iters: map[ssa.Value]string{}}
	// the enclosing loop head is shared by all incoming edges of a join inside the loop body
	out.iter = edges[0].st.iter
	for _, e := range edges[1:] {
		if e.st.iter != out.iter {
			out.iter = nil
		}
	}
	var rs []string
	for _, e := range edges {
		rs = append(rs, e.st.reach)
	}
	out.reach = vc.define("reach_"+hint, "Bool", smtOr(rs...))
	// epoch: if they differ, take a fresh epoch and materialise every known component
	sameEpoch := true
	for _, e := range edges[1:] {
		if e.st.epoch != edges[0].st.epoch {
			sameEpoch = false
		}
	}
	out.epoch = edges[0].st.epoch
	pick := func(sort string, get func(s *State) string) string {
		first := get(edges[0].st)
		same := true
		for _, e := range edges[1:] {
			if get(e.st) != first {
				same = false
				break
			}
		}
		if same {
			return first
		}
		t := get(edges[len(edges)-1].st)
		for i := len(edges) - 2; i >= 0; i-- {
			t = smtIte(edges[i].st.reach, get(edges[i].st), t)
		}
		return vc.define("phi_"+hint, sort, t)
	}
	comps := map[string]bool{}
	if sameEpoch {
		for _, e := range edges {
			for c := range e.st.heap {
				comps[c] = true
			}
		}
	} else {
		vc.nfresh++
		out.epoch = vc.nfresh
		for k := range vc.decl {
			if strings.HasPrefix(k, "§") {
				comps[strings.TrimPrefix(k, "§")] = true
			}
		}
	}
	for _, c := range sortedKeysB(comps) {
		sort := vc.decl["§"+c]
		out.heap[c] = pick(sort, func(s *State) string { return vc.heapGet(s, c, sort) })
	}
	out.allocTop = pick("Int", func(s *State) string { return s.allocTop })
	if !sameEpoch {
		vc.epochTop[out.epoch] = out.allocTop
	}
	cells := map[*ssa.Alloc]bool{}
	for _, e := range edges {
		for c := range e.st.cells {
			cells[c] = true
		}
	}
	var cl []*ssa.Alloc
	for c := range cells {
		cl = append(cl, c)
	}
	sort.Slice(cl, func(i, j int) bool {
		return cl[i].Pos() < cl[j].Pos() || (cl[i].Pos() == cl[j].Pos() && cl[i].Name() < cl[j].Name())
	})
	for _, c := range cl {
		inAll := true
		for _, e := range edges {
			if _, ok := e.st.cells[c]; !ok {
				inAll = false
			}
		}
		if !inAll {
			continue // cell not live on every path: dead after the join
		}
		out.cells[c] = pick(vc.sortOf(c.Type().(*types.Pointer).Elem()), func(s *State) string { return s.cells[c] })
	}
	its := map[ssa.Value]bool{}
	for _, e := range edges {
		for it := range e.st.iters {
			its[it] = true
		}
	}
	for it := range its {
		inAll := true
		for _, e := range edges {
			if _, ok := e.st.iters[it]; !ok {
				inAll = false
			}
		}
		if inAll {
			ri := vc.ranges[it]
			ks := "Int"
			if ri != nil && ri.mapType != nil {
				ks = vc.sortOf(ri.mapType.Key())
			}
			out.iters[it] = pick("(Array "+ks+" Bool)", func(s *State) string { return s.iters[it] })
		}
	}
	if edges[0].st.fcells != nil {
		out.fcells = map[*ssa.FreeVar]string{}
		var fvs []*ssa.FreeVar
		for fv := range edges[0].st.fcells {
			fvs = append(fvs, fv)
		}
		sort.Slice(fvs, func(i, j int) bool { return fvs[i].Name() < fvs[j].Name() })
		for _, fv := range fvs {
			fv := fv
			out.fcells[fv] = pick(vc.sortOf(fv.Type().(*types.Pointer).Elem()), func(s *State) string { return s.fcells[fv] })
		}
	}
	// defers: keep those of the first edge (unconditional defers are the supported case)
	out.defers = append([]*ssa.Defer(nil), edges[0].st.defers...)
	for _, e := range edges[1:] {
		if len(e.st.defers) != len(out.defers) {
			vc.unsupp["conditional defer"] = true
		}
	}
	return out
}

func sortedKeysB(m map[string]bool) []string {
	ks := make([]string, 0, len(m))
	for k := range m {
		ks = append(ks, k)
	}
	sort.Strings(ks)
	return ks
}
