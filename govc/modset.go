package main

import (
	"go/types"
	"sort"
	"strings"

	"golang.org/x/tools/go/ssa"
)

// ModSets holds inferred write effects per function: the set of heap components (struct fields of a type,
// map contents of a map type, slice elements of an element type, package variables) that the function or
// anything it may call can write. Computed once per run from the SSA of the working tree (DESIGN 3.2, frames).
//
// Resolution of calls: static callees directly; interface calls by class hierarchy over the module's types;
// calls of function values by signature over every function whose value is taken somewhere in the module.
// Calls into packages outside the module write no module state (assumption 4 of DESIGN section 10), except
// that github.com/looplab/fsm.(*FSM).Event runs the module's callbacks and is resolved to them.
type ModSets struct {
	w      *World
	namer  *VC
	eff    map[*ssa.Function]*effect
	direct map[*ssa.Function]*effect
	calls  map[*ssa.Function][]*ssa.Function
	impls  map[string][]*ssa.Function // iface method id -> implementations
	fvals  map[string][]*ssa.Function // signature string -> functions used as values
	fsmCBs []*ssa.Function
	framed map[*ssa.Function]bool // effect taken from the contract's assigns clause
}

type effect struct {
	comps map[string]string // component -> sort
	all   bool
}

func newEffect() *effect { return &effect{comps: map[string]string{}} }

func (e *effect) add(o *effect) bool {
	ch := false
	if o.all && !e.all {
		e.all = true
		ch = true
	}
	for c, s := range o.comps {
		if _, ok := e.comps[c]; !ok {
			e.comps[c] = s
			ch = true
		}
	}
	return ch
}

func inModule(fn *ssa.Function) bool {
	if fn == nil {
		return false
	}
	p := fn.Pkg
	if p == nil && fn.Parent() != nil {
		p = fn.Parent().Pkg
	}
	if p == nil {
		if o := fn.Object(); o != nil && o.Pkg() != nil {
			return strings.HasPrefix(o.Pkg().Path(), modulePath)
		}
		return false
	}
	return strings.HasPrefix(p.Pkg.Path(), modulePath)
}

func modsetAnalysis(w *World, cs *Contracts) *ModSets {
	m := &ModSets{w: w, eff: map[*ssa.Function]*effect{}, direct: map[*ssa.Function]*effect{}, calls: map[*ssa.Function][]*ssa.Function{},
		impls: map[string][]*ssa.Function{}, fvals: map[string][]*ssa.Function{}, framed: map[*ssa.Function]bool{}}
	m.namer = newVC(w, cs, nil, nil, &FuncSpec{Modes: map[string]string{}, Loops: map[int]*LoopSpec{}})
	var fns []*ssa.Function
	seen := map[*ssa.Function]bool{}
	var addFn func(f *ssa.Function)
	addFn = func(f *ssa.Function) {
		if f == nil || seen[f] || len(f.Blocks) == 0 {
			return
		}
		seen[f] = true
		fns = append(fns, f)
		for _, a := range f.AnonFuncs {
			addFn(a)
		}
	}
	for path, sp := range w.SSAPkgs {
		if !strings.HasPrefix(path, modulePath) {
			continue
		}
		for _, mem := range sp.Members {
			switch x := mem.(type) {
			case *ssa.Function:
				addFn(x)
			case *ssa.Type:
				for _, T := range []types.Type{x.Type(), types.NewPointer(x.Type())} {
					ms := w.Prog.MethodSets.MethodSet(T)
					for i := 0; i < ms.Len(); i++ {
						addFn(w.Prog.MethodValue(ms.At(i)))
					}
				}
			}
		}
	}
	sort.Slice(fns, func(i, j int) bool { return fns[i].String() < fns[j].String() })
	// functions used as values, by signature
	for _, f := range fns {
		for _, b := range f.Blocks {
			for _, ins := range b.Instrs {
				var ops []*ssa.Value
				ops = ins.Operands(ops)
				for k, op := range ops {
					if op == nil || *op == nil {
						continue
					}
					var tgt *ssa.Function
					switch v := (*op).(type) {
					case *ssa.Function:
						tgt = v
					case *ssa.MakeClosure:
						tgt, _ = v.Fn.(*ssa.Function)
					}
					if tgt == nil {
						continue
					}
					// operand 0 of a call instruction in call position is not a value use
					if c, ok := ins.(ssa.CallInstruction); ok && k == 0 && c.Common().Value == *op {
						continue
					}
					sig := tgt.Signature
					key := types.NewSignatureType(nil, nil, nil, sig.Params(), sig.Results(), sig.Variadic()).String()
					m.fvals[key] = append(m.fvals[key], tgt)
					if call, ok := ins.(ssa.CallInstruction); ok {
						_ = call
					}
				}
			}
		}
	}
	// FSM callbacks: closures created in functions named callbacks / eventDesc users
	for _, f := range fns {
		if f.Parent() != nil && (f.Parent().Name() == "callbacks" || strings.Contains(f.Parent().Name(), "allbacks") || f.Parent().Name() == "NewObjectState") {
			m.fsmCBs = append(m.fsmCBs, f)
		}
	}
	for _, f := range fns {
		d := newEffect()
		if spec := cs.Funcs[funcKey(f)]; spec != nil && spec.HasAssigns && !hasAnyTarget(spec) {
			// a function under contract (verified or assumed) with a frame: its effect is its assigns clause
			for _, t := range spec.Assigns {
				for comp, srt := range m.namer.targetComps(f, t) {
					d.comps[comp] = srt
				}
			}
			m.direct[f] = d
			e := newEffect()
			e.add(d)
			m.eff[f] = e
			m.framed[f] = true
			// still record the call edges (call-graph obligations use them)
			scratch := newEffect()
			for _, b := range f.Blocks {
				for _, ins := range b.Instrs {
					m.instrEffect(f, ins, scratch)
				}
			}
			continue
		}
		for _, b := range f.Blocks {
			for _, ins := range b.Instrs {
				m.instrEffect(f, ins, d)
			}
		}
		m.direct[f] = d
		e := newEffect()
		e.add(d)
		m.eff[f] = e
	}
	// fixpoint
	for changed := true; changed; {
		changed = false
		for _, f := range fns {
			if m.framed[f] {
				continue
			}
			e := m.eff[f]
			for _, c := range m.calls[f] {
				if ce := m.eff[c]; ce != nil {
					if e.add(ce) {
						changed = true
					}
				}
			}
		}
	}
	return m
}

func (m *ModSets) instrEffect(f *ssa.Function, ins ssa.Instruction, d *effect) {
	vc := m.namer
	ms := newModSet()
	switch x := ins.(type) {
	case *ssa.Store:
		m.addrEffect(x.Addr, ms, d)
	case *ssa.MapUpdate:
		vc.msMap(ms, x.Map.Type().Underlying().(*types.Map))
	case *ssa.Call:
		m.callEffect(f, &x.Call, ms, d)
	case *ssa.Defer:
		m.callEffect(f, &x.Call, ms, d)
	case *ssa.Go:
		m.callEffect(f, &x.Call, ms, d)
	case *ssa.Send:
		// channel traffic is not heap state of the model
	}
	for c, s := range ms.comps {
		d.comps[c] = s
	}
	if ms.all {
		d.all = true
	}
}

func (m *ModSets) addrEffect(a ssa.Value, ms *modSet, d *effect) {
	vc := m.namer
	switch x := a.(type) {
	case *ssa.Alloc:
		if x.Heap {
			// escaping local cell (captured variable): not part of the modelled heap components
		}
	case *ssa.FieldAddr:
		if isLocalObject(x.X) {
			return // field of an object allocated in this very function: not an effect visible to callers
		}
		vc.msField(ms, x.X.Type(), x.Field)
	case *ssa.IndexAddr:
		if isLocalObject(x.X) {
			return
		}
		var et types.Type
		switch u := x.X.Type().Underlying().(type) {
		case *types.Slice:
			et = u.Elem()
		case *types.Pointer:
			if arr, ok := u.Elem().Underlying().(*types.Array); ok {
				et = arr.Elem()
			}
		}
		if et != nil {
			if isStructLike(et) {
				vc.structMods(et, ms)
			} else {
				vc.msElem(ms, et)
			}
		}
	case *ssa.Global:
		ms.comps["G_"+x.Pkg.Pkg.Name()+"_"+x.Name()] = vc.sortOf(x.Type().(*types.Pointer).Elem())
	case *ssa.FreeVar:
		// captured variable of an enclosing function: a local cell of that function
	default:
		if p, ok := a.Type().Underlying().(*types.Pointer); ok {
			if isStructLike(p.Elem()) {
				vc.structMods(p.Elem(), ms)
			}
			// store through a pointer to a scalar / pointer cell (e.g. *p = v for p *int): such cells are
			// either locals or fields whose address was taken; the latter is refused in functions under
			// contract, and not part of the component model.
		}
	}
}

func (m *ModSets) callEffect(f *ssa.Function, c *ssa.CallCommon, ms *modSet, d *effect) {
	vc := m.namer
	if b, ok := c.Value.(*ssa.Builtin); ok {
		switch b.Name() {
		case "append", "copy":
			if sl, ok := c.Args[0].Type().Underlying().(*types.Slice); ok {
				if b.Name() == "copy" {
					vc.msElem(ms, sl.Elem())
				}
			}
		case "delete", "clear":
			if mt, ok := c.Args[0].Type().Underlying().(*types.Map); ok {
				vc.msMap(ms, mt)
			}
		}
		return
	}
	for _, callee := range m.resolve(c) {
		if vc.isDropped(callee) {
			continue // log / metrics / ...: no effect on modelled state (DESIGN 3.3 item 1)
		}
		m.calls[f] = append(m.calls[f], callee)
	}
}

// resolve returns the module functions a call may reach.
func (m *ModSets) resolve(c *ssa.CallCommon) []*ssa.Function {
	if c.IsInvoke() {
		return m.implementations(c)
	}
	if callee := c.StaticCallee(); callee != nil {
		if inModule(callee) {
			return []*ssa.Function{callee}
		}
		if strings.Contains(callee.String(), "looplab/fsm") && strings.HasSuffix(callee.Name(), "Event") {
			// which state machine? the receiver is loaded from a stateMachine field: Application machines run the
			// closures of callbacks(), object (queue / partition) machines those of NewObjectState()
			owner := ""
			if len(c.Args) > 0 {
				if u, ok := c.Args[0].(*ssa.UnOp); ok {
					if fa, ok := u.X.(*ssa.FieldAddr); ok {
						owner = fieldName(fa.X.Type(), fa.Field)
					}
				}
			}
			var out []*ssa.Function
			for _, cb := range m.fsmCBs {
				isApp := cb.Parent().Name() == "callbacks"
				switch {
				case strings.HasPrefix(owner, "Application."):
					if isApp {
						out = append(out, cb)
					}
				case owner != "":
					if !isApp {
						out = append(out, cb)
					}
				default:
					out = append(out, cb)
				}
			}
			return out
		}
		// external function taking module closures as arguments: the closures may run
		var out []*ssa.Function
		for _, a := range c.Args {
			switch v := a.(type) {
			case *ssa.MakeClosure:
				if fn, ok := v.Fn.(*ssa.Function); ok {
					out = append(out, fn)
				}
			case *ssa.Function:
				if inModule(v) {
					out = append(out, v)
				}
			}
		}
		return out
	}
	// function value
	switch v := c.Value.(type) {
	case *ssa.MakeClosure:
		if fn, ok := v.Fn.(*ssa.Function); ok {
			return []*ssa.Function{fn}
		}
	}
	sig, ok := c.Value.Type().Underlying().(*types.Signature)
	if !ok {
		return nil
	}
	key := types.NewSignatureType(nil, nil, nil, sig.Params(), sig.Results(), sig.Variadic()).String()
	return m.fvals[key]
}

func (m *ModSets) implementations(c *ssa.CallCommon) []*ssa.Function {
	iface, ok := c.Value.Type().Underlying().(*types.Interface)
	if !ok {
		return nil
	}
	key := c.Value.Type().String() + "." + c.Method.Name()
	if r, ok := m.impls[key]; ok {
		return r
	}
	var out []*ssa.Function
	for path, sp := range m.w.SSAPkgs {
		if !strings.HasPrefix(path, modulePath) {
			continue
		}
		for _, mem := range sp.Members {
			tn, ok := mem.(*ssa.Type)
			if !ok {
				continue
			}
			if _, isIface := tn.Type().Underlying().(*types.Interface); isIface {
				continue
			}
			for _, T := range []types.Type{tn.Type(), types.NewPointer(tn.Type())} {
				if !types.Implements(T, iface) {
					continue
				}
				sel := m.w.Prog.MethodSets.MethodSet(T).Lookup(c.Method.Pkg(), c.Method.Name())
				if sel == nil {
					continue
				}
				if fn := m.w.Prog.MethodValue(sel); fn != nil {
					out = append(out, fn)
				}
			}
		}
	}
	m.impls[key] = out
	return out
}

func (m *ModSets) effectOf(c *ssa.CallCommon, caller *ssa.Function) *effect {
	if m == nil {
		return nil
	}
	return m.effectOfCall(c, caller)
}

func (m *ModSets) effectOfCall(c *ssa.CallCommon, caller *ssa.Function) *effect {
	if _, ok := c.Value.(*ssa.Builtin); ok {
		return nil
	}
	e := newEffect()
	for _, callee := range m.resolve(c) {
		if m.namer.isDropped(callee) {
			continue
		}
		ce := m.eff[callee]
		if ce == nil {
			// synthetic wrapper or function without body in the module: look through wrappers
			if callee.Synthetic != "" && len(callee.Blocks) > 0 {
				ce = m.effectOfFunc(callee)
			}
		}
		if ce != nil {
			e.add(ce)
		}
	}
	return e
}

// effectOfFunc computes the effect of a function that was not in the initial set (wrappers, instantiations).
func (m *ModSets) effectOfFunc(f *ssa.Function) *effect {
	if e, ok := m.eff[f]; ok {
		return e
	}
	e := newEffect()
	m.eff[f] = e
	for _, b := range f.Blocks {
		for _, ins := range b.Instrs {
			m.instrEffect(f, ins, e)
		}
	}
	for _, c := range m.calls[f] {
		e.add(m.effectOfFunc(c))
	}
	return e
}

// writers lists, for one heap component, the module functions that write it directly.
func (m *ModSets) writers(comp string) []string {
	var out []string
	for f, d := range m.direct {
		if _, ok := d.comps[comp]; ok {
			out = append(out, funcKey(f))
		}
	}
	sort.Strings(out)
	return out
}

// isLocalObject: the address is (a field/element path into) an object allocated by this function itself.
func isLocalObject(v ssa.Value) bool {
	for {
		switch x := v.(type) {
		case *ssa.Alloc:
			return true
		case *ssa.FieldAddr:
			v = x.X
		case *ssa.IndexAddr:
			v = x.X
		default:
			return false
		}
	}
}

// reachPath searches the call graph for a path from any root to target; missing names a key that does not resolve.
func (m *ModSets) reachPath(roots []string, target string) (path []string, missing string) {
	tgt := m.w.lookupFunc(target)
	if tgt == nil {
		return nil, target
	}
	prev := map[*ssa.Function]*ssa.Function{}
	var queue []*ssa.Function
	for _, r := range roots {
		f := m.w.lookupFunc(r)
		if f == nil {
			return nil, r
		}
		if _, ok := prev[f]; !ok {
			prev[f] = nil
			queue = append(queue, f)
		}
	}
	for len(queue) > 0 {
		f := queue[0]
		queue = queue[1:]
		if f == tgt {
			for x := f; x != nil; x = prev[x] {
				path = append([]string{funcKey(x)}, path...)
			}
			return path, ""
		}
		next := append([]*ssa.Function{}, m.calls[f]...)
		next = append(next, f.AnonFuncs...) // closures created here may run on behalf of the creator
		for _, c := range next {
			if _, ok := prev[c]; !ok {
				prev[c] = f
				queue = append(queue, c)
			}
		}
	}
	return nil, ""
}

func hasAnyTarget(spec *FuncSpec) bool {
	for _, t := range spec.Assigns {
		if t.Kind == "any" {
			return true
		}
	}
	return false
}

// otherCallers lists module functions (non-test) with a static call of target that are not in the allowed set.
func (m *ModSets) otherCallers(target string, allowed []string) (extra []string, missing string) {
	var tgt *ssa.Function
	anchor := ""
	if strings.HasPrefix(target, "append:") {
		anchor = strings.TrimPrefix(target, "append:")
	} else {
		tgt = m.w.lookupFunc(target)
		if tgt == nil {
			return nil, target
		}
	}
	ok := map[*ssa.Function]bool{}
	for _, a := range allowed {
		f := m.w.lookupFunc(a)
		if f == nil {
			return nil, a
		}
		ok[f] = true
	}
	for f := range m.direct {
		if ok[f] {
			continue
		}
		for _, b := range f.Blocks {
			for _, ins := range b.Instrs {
				if c, isCall := ins.(ssa.CallInstruction); isCall {
					if tgt != nil && c.Common().StaticCallee() == tgt {
						extra = append(extra, funcKey(f))
					}
					if anchor != "" {
						if b, isB := c.Common().Value.(*ssa.Builtin); isB && b.Name() == "append" && len(c.Common().Args) > 0 && appendAnchor(c.Common().Args[0]) == anchor {
							extra = append(extra, funcKey(f))
						}
					}
				}
			}
		}
	}
	sort.Strings(extra)
	return extra, ""
}

// onlyInitWrites: the package variable behind comp is stored to only by package initialisers.
func (m *ModSets) onlyInitWrites(comp string) bool {
	for f, d := range m.direct {
		if _, ok := d.comps[comp]; ok {
			if f.Name() != "init" && !strings.HasPrefix(f.Name(), "init#") {
				return false
			}
		}
	}
	return true
}

// writersReachable lists the functions reachable from fn that write comp directly (for diagnostics).
func (m *ModSets) writersReachable(fn *ssa.Function, comp string) []string {
	seen := map[*ssa.Function]bool{}
	var out []string
	var walk func(f *ssa.Function)
	walk = func(f *ssa.Function) {
		if seen[f] {
			return
		}
		seen[f] = true
		if d := m.direct[f]; d != nil {
			if _, ok := d.comps[comp]; ok {
				out = append(out, funcKey(f))
			}
		}
		if m.framed[f] {
			return
		}
		for _, c := range m.calls[f] {
			walk(c)
		}
	}
	walk(fn)
	sort.Strings(out)
	if len(out) > 6 {
		out = out[:6]
	}
	return out
}
