package main

import (
	"golang.org/x/tools/go/ssa"
)

// ModSets holds inferred write effects per function (filled by modsetAnalysis).
type ModSets struct {
	w   *World
	eff map[*ssa.Function]*effect
}

type effect struct {
	comps map[string]string // component -> sort
	all   bool
}

func (m *ModSets) effectOf(c *ssa.CallCommon, caller *ssa.Function) *effect {
	if m == nil {
		return nil
	}
	return m.effectOfCall(c, caller)
}

func modsetAnalysis(w *World) *ModSets { return nil }

func (m *ModSets) effectOfCall(c *ssa.CallCommon, caller *ssa.Function) *effect { return nil }
