package main

import (
	"fmt"
	"go/ast"
	"go/token"
	"go/types"
	"os"
	"sort"
	"strconv"
	"strings"

	"golang.org/x/tools/go/packages"
	"golang.org/x/tools/go/ssa"
	"golang.org/x/tools/go/ssa/ssautil"
)

const modulePath = "github.com/apache/yunikorn-core"

// World is everything loaded from the /repo working tree for one run.
type World struct {
	RepoDir string
	Fset    *token.FileSet
	Pkgs    []*packages.Package
	Prog    *ssa.Program
	SSAPkgs map[string]*ssa.Package // by import path
	ByPath  map[string]*packages.Package
	// component -> Go type of the stored value; shared by every VC and the mod-set namer (sequential use only)
	compType map[string]types.Type
}

func repoDir() string {
	if d := os.Getenv("VERIF_REPO"); d != "" {
		return d
	}
	return "/repo"
}

// loadWorld loads the given package patterns (relative to the repo) with the
// verif tag on, and builds naive-form SSA for them (locals stay memory cells,
// which lets contracts name them).
func loadWorld(patterns ...string) (*World, error) {
	dir := repoDir()
	cfg := &packages.Config{
		Mode: packages.NeedName | packages.NeedFiles | packages.NeedCompiledGoFiles | packages.NeedImports |
			packages.NeedDeps | packages.NeedTypes | packages.NeedSyntax | packages.NeedTypesInfo | packages.NeedTypesSizes | packages.NeedModule,
		Dir:        dir,
		BuildFlags: []string{"-tags=verif", "-mod=mod"},
		Env:        append(os.Environ(), "PATH=/opt/veriftools/go1.26.8/bin:"+os.Getenv("PATH"), "GOFLAGS=-mod=mod", "GOPROXY=off", "GOSUMDB=off", "GOTOOLCHAIN=local"),
		ParseFile:  nil,
	}
	pkgs, err := packages.Load(cfg, patterns...)
	if err != nil {
		return nil, err
	}
	var errs []string
	packages.Visit(pkgs, nil, func(p *packages.Package) {
		for _, e := range p.Errors {
			errs = append(errs, e.Error())
		}
	})
	if len(errs) > 0 {
		return nil, fmt.Errorf("load errors (the tree does not compile):\n%s", strings.Join(errs, "\n"))
	}
	prog, spkgs := ssautil.AllPackages(pkgs, ssa.NaiveForm|ssa.InstantiateGenerics)
	w := &World{RepoDir: dir, Fset: prog.Fset, Pkgs: pkgs, Prog: prog, SSAPkgs: map[string]*ssa.Package{}, ByPath: map[string]*packages.Package{}}
	_ = spkgs
	packages.Visit(pkgs, nil, func(p *packages.Package) {
		w.ByPath[p.PkgPath] = p
	})
	for _, sp := range prog.AllPackages() {
		w.SSAPkgs[sp.Pkg.Path()] = sp
	}
	// build only module packages (and lazily others when needed)
	for path, sp := range w.SSAPkgs {
		if strings.HasPrefix(path, modulePath) {
			sp.Build()
		}
	}
	return w, nil
}

// FuncKey gives the contract key of a function: "pkgname.Func" or "pkgname.Recv.Method".
func funcKey(fn *ssa.Function) string {
	if fn == nil {
		return "<nil>"
	}
	if fn.Parent() != nil {
		// anonymous function: parent key + #ordinal
		par := fn.Parent()
		for i, af := range par.AnonFuncs {
			if af == fn {
				return fmt.Sprintf("%s$%d", funcKey(par), i+1)
			}
		}
	}
	pkg := ""
	if fn.Pkg != nil {
		pkg = fn.Pkg.Pkg.Name()
	} else if fn.Object() != nil && fn.Object().Pkg() != nil {
		pkg = fn.Object().Pkg().Name()
	}
	if recv := fn.Signature.Recv(); recv != nil {
		t := recv.Type()
		if p, ok := t.(*types.Pointer); ok {
			t = p.Elem()
		}
		if n, ok := t.(*types.Named); ok {
			if n.Obj().Pkg() != nil {
				pkg = n.Obj().Pkg().Name()
			}
			return pkg + "." + n.Obj().Name() + "." + fn.Name()
		}
	}
	return pkg + "." + fn.Name()
}

// lookupFunc finds a source function by contract key in the module.
func (w *World) lookupFunc(key string) *ssa.Function {
	// closure addressed by what it calls: "<parent key>$calls(<callee key>)" = the unique function literal inside
	// parent (at any depth) that contains a static call of callee. Robust against reordering of literals.
	if i := strings.Index(key, "$calls("); i >= 0 && strings.HasSuffix(key, ")") {
		parent := w.lookupFunc(key[:i])
		if parent == nil {
			return nil
		}
		want := key[i+len("$calls(") : len(key)-1]
		var found []*ssa.Function
		var walk func(f *ssa.Function)
		walk = func(f *ssa.Function) {
			for _, a := range f.AnonFuncs {
				hit := false
				for _, b := range a.Blocks {
					for _, ins := range b.Instrs {
						if c, ok := ins.(ssa.CallInstruction); ok {
							if callee := c.Common().StaticCallee(); callee != nil && funcKey(callee) == want {
								hit = true
							}
						}
					}
				}
				if hit {
					found = append(found, a)
				}
				walk(a)
			}
		}
		walk(parent)
		if len(found) == 1 {
			return found[0]
		}
		return nil
	}
	for path, sp := range w.SSAPkgs {
		if !strings.HasPrefix(path, modulePath) {
			continue
		}
		parts := strings.Split(key, ".")
		if parts[0] != sp.Pkg.Name() {
			continue
		}
		// function literal by ordinal: "<parent key>$N"
		if i := strings.LastIndex(key, "$"); i > 0 && !strings.Contains(key[i:], "(") {
			if n, err := strconv.Atoi(key[i+1:]); err == nil {
				if parent := w.lookupFunc(key[:i]); parent != nil && n >= 1 && n <= len(parent.AnonFuncs) {
					return parent.AnonFuncs[n-1]
				}
				return nil
			}
		}
		switch len(parts) {
		case 2:
			if f := sp.Func(parts[1]); f != nil {
				return f
			}
		case 3:
			tn, ok := sp.Members[parts[1]].(*ssa.Type)
			if !ok {
				continue
			}
			named, _ := tn.Type().(*types.Named)
			if named == nil {
				continue
			}
			for _, T := range []types.Type{named, types.NewPointer(named)} {
				ms := w.Prog.MethodSets.MethodSet(T)
				for i := 0; i < ms.Len(); i++ {
					if ms.At(i).Obj().Name() == parts[2] {
						if f := w.Prog.MethodValue(ms.At(i)); f != nil && f.Synthetic == "" {
							return f
						}
					}
				}
			}
		}
	}
	return nil
}

// funcDecl returns the AST declaration of fn (nil for synthetic functions).
func funcDecl(fn *ssa.Function) *ast.FuncDecl {
	if d, ok := fn.Syntax().(*ast.FuncDecl); ok {
		return d
	}
	return nil
}

func sortedKeys[M ~map[string]V, V any](m M) []string {
	ks := make([]string, 0, len(m))
	for k := range m {
		ks = append(ks, k)
	}
	sort.Strings(ks)
	return ks
}
