package main

import (
	"fmt"
	"go/types"
	"math/big"
	"strings"
)

// SMT helpers: terms are plain s-expression strings.

func sx(op string, args ...string) string {
	if len(args) == 0 {
		return op
	}
	return "(" + op + " " + strings.Join(args, " ") + ")"
}

func smtAnd(xs ...string) string {
	var ys []string
	for _, x := range xs {
		if x == "true" {
			continue
		}
		if x == "false" {
			return "false"
		}
		ys = append(ys, x)
	}
	switch len(ys) {
	case 0:
		return "true"
	case 1:
		return ys[0]
	}
	return sx("and", ys...)
}

func smtOr(xs ...string) string {
	var ys []string
	for _, x := range xs {
		if x == "false" {
			continue
		}
		if x == "true" {
			return "true"
		}
		ys = append(ys, x)
	}
	switch len(ys) {
	case 0:
		return "false"
	case 1:
		return ys[0]
	}
	return sx("or", ys...)
}

func smtNot(x string) string {
	switch x {
	case "true":
		return "false"
	case "false":
		return "true"
	}
	if strings.HasPrefix(x, "(not ") && balanced(x[5:len(x)-1]) {
		return x[5 : len(x)-1]
	}
	return sx("not", x)
}

func balanced(s string) bool {
	d := 0
	for _, c := range s {
		if c == '(' {
			d++
		} else if c == ')' {
			d--
			if d < 0 {
				return false
			}
		}
	}
	return d == 0
}

func smtImp(a, b string) string {
	if a == "true" {
		return b
	}
	if a == "false" || b == "true" {
		return "true"
	}
	return sx("=>", a, b)
}

func smtIte(c, a, b string) string {
	if c == "true" {
		return a
	}
	if c == "false" {
		return b
	}
	if a == b {
		return a
	}
	return sx("ite", c, a, b)
}

func smtInt(v *big.Int) string {
	if v.Sign() < 0 {
		return "(- " + new(big.Int).Neg(v).String() + ")"
	}
	return v.String()
}

func smtIntS(s string) string {
	v, ok := new(big.Int).SetString(s, 10)
	if !ok {
		return s
	}
	return smtInt(v)
}

var (
	two64  = new(big.Int).Lsh(big.NewInt(1), 64)
	two63  = new(big.Int).Lsh(big.NewInt(1), 63)
	two32  = new(big.Int).Lsh(big.NewInt(1), 32)
	two31  = new(big.Int).Lsh(big.NewInt(1), 31)
	maxI64 = new(big.Int).Sub(two63, big.NewInt(1))
	minI64 = new(big.Int).Neg(two63)
)

// intRange gives [lo, hi] and modulus for a Go integer kind.
func intRange(b *types.Basic) (lo, hi, mod *big.Int, ok bool) {
	bits := 0
	signed := true
	switch b.Kind() {
	case types.Int, types.Int64, types.UntypedInt, types.UntypedRune:
		bits = 64
	case types.Int32:
		bits = 32
	case types.Int16:
		bits = 16
	case types.Int8:
		bits = 8
	case types.Uint, types.Uint64, types.Uintptr:
		bits, signed = 64, false
	case types.Uint32:
		bits, signed = 32, false
	case types.Uint16:
		bits, signed = 16, false
	case types.Uint8:
		bits, signed = 8, false
	default:
		return nil, nil, nil, false
	}
	mod = new(big.Int).Lsh(big.NewInt(1), uint(bits))
	if signed {
		half := new(big.Int).Lsh(big.NewInt(1), uint(bits-1))
		return new(big.Int).Neg(half), new(big.Int).Sub(half, big.NewInt(1)), mod, true
	}
	return big.NewInt(0), new(big.Int).Sub(mod, big.NewInt(1)), mod, true
}

func basicOf(t types.Type) *types.Basic {
	if t == nil {
		return nil
	}
	b, _ := t.Underlying().(*types.Basic)
	return b
}

func isIntType(t types.Type) bool {
	b := basicOf(t)
	return b != nil && b.Info()&types.IsInteger != 0
}

func isFloatType(t types.Type) bool {
	b := basicOf(t)
	return b != nil && b.Info()&types.IsFloat != 0
}

func isBoolType(t types.Type) bool {
	b := basicOf(t)
	return b != nil && b.Info()&types.IsBoolean != 0
}

func isStringType(t types.Type) bool {
	b := basicOf(t)
	return b != nil && b.Info()&types.IsString != 0
}

// inRange: lo <= x <= hi for the integer type t.
func inRange(x string, t types.Type) string {
	b := basicOf(t)
	if b == nil {
		return "true"
	}
	lo, hi, _, ok := intRange(b)
	if !ok {
		return "true"
	}
	return sx("and", sx("<=", smtInt(lo), x), sx("<=", x, smtInt(hi)))
}

// wrapLinear wraps x (known to be within one modulus of the range, as for + and -)
// into the range of t.
func wrapLinear(x string, t types.Type) string {
	b := basicOf(t)
	lo, hi, mod, ok := intRange(b)
	if !ok {
		return x
	}
	return sx("ite", sx(">", x, smtInt(hi)), sx("-", x, smtInt(mod)),
		sx("ite", sx("<", x, smtInt(lo)), sx("+", x, smtInt(mod)), x))
}

// sanitize makes a string usable inside an SMT symbol.
func sanitize(s string) string {
	var sb strings.Builder
	for _, c := range s {
		switch {
		case c >= 'a' && c <= 'z', c >= 'A' && c <= 'Z', c >= '0' && c <= '9', c == '_':
			sb.WriteRune(c)
		case c == '.' || c == '/':
			sb.WriteRune('_')
		case c == '*':
			sb.WriteString("P")
		case c == '[' || c == ']':
			sb.WriteString("S")
		default:
			sb.WriteString(fmt.Sprintf("x%x", c))
		}
	}
	return sb.String()
}
