package main

import (
	"fmt"
	"go/constant"
	"go/token"
	"go/types"
	"sort"
	"strings"

	"golang.org/x/tools/go/ssa"
)

// ---------------------------------------------------------------- driver

// run translates the function under contract and generates all obligations.
func (vc *VC) run() (err error) {
	defer func() {
		if r := recover(); r != nil {
			if ce, ok := r.(compileErr); ok {
				err = fmt.Errorf("%s: %s", vc.key, ce.msg)
				return
			}
			panic(r)
		}
	}()
	fn := vc.fn
	if len(fn.Blocks) == 0 {
		return fmt.Errorf("%s has no body", vc.key)
	}
	st := &State{reach: "true", heap: map[string]string{}, cells: map[*ssa.Alloc]string{}, iters: map[ssa.Value]string{}}
	st.allocTop = vc.declareNamed("allocTop@0", "Int")
	vc.allocBase = st.allocTop
	vc.assert(sx("<=", "0", st.allocTop))
	vc.paramVals = map[string]Val{}
	for _, p := range fn.Params {
		n := vc.declareNamed("p_"+sanitize(p.Name()), vc.sortOf(p.Type()))
		vc.vals[p] = n
		vc.paramTerms = append(vc.paramTerms, n)
		vc.assumeType(st, n, p.Type())
		vc.paramVals[p.Name()] = Val{T: n, S: vc.sortOf(p.Type()), Ty: p.Type()}
	}
	// captured variables of a function literal: cells owned by the enclosing function, visible by name
	if len(fn.FreeVars) > 0 {
		st.fcells = map[*ssa.FreeVar]string{}
		for _, fv := range fn.FreeVars {
			et := fv.Type().(*types.Pointer).Elem()
			t := vc.declareNamed("fv_"+sanitize(fv.Name()), vc.sortOf(et))
			vc.assumeType(st, t, et)
			st.fcells[fv] = t
			vc.paramVals[fv.Name()] = Val{T: t, S: vc.sortOf(et), Ty: et}
		}
	}
	vc.entry = st.clone()
	vc.findLoops()
	vc.sourceOrdinals()

	env := vc.baseEnv(st)
	vc.assumeGlobals(st)
	// type invariants of pointer parameters and explicit preconditions
	for _, c := range vc.spec.Requires {
		t, err := env.compileBool(c.E)
		if err != nil {
			return fmt.Errorf("%s requires#%d: %v", vc.key, c.N, err)
		}
		vc.assume(st, t)
	}
	for _, h := range vc.spec.Holds {
		t, err := env.compileBool(h.E)
		if err != nil {
			return fmt.Errorf("%s holds#%d: %v", vc.key, h.N, err)
		}
		vc.assume(st, t)
		vc.assumedUse["visible-state type invariant assumed at entry of "+vc.key+": "+h.Text+" (writers re-establish it: writer-closure obligation)"] = true
	}
	for _, u := range vc.spec.Uses {
		t, err := vc.lemmaInstance(env, u.E.(*ECall))
		if err != nil {
			return fmt.Errorf("%s use %s: %v", vc.key, u.Text, err)
		}
		vc.assume(st, t)
	}
	vc.cover(st, "cover.requires")

	// process blocks in reverse post order ignoring back edges
	order := vc.rpo()
	in := map[*ssa.BasicBlock][]inEdge{}
	in[fn.Blocks[0]] = []inEdge{{nil, st}}
	for _, b := range order {
		edges := in[b]
		if len(edges) == 0 {
			continue // unreachable
		}
		vc.curBlock = b
		cur := vc.merge(edges, fmt.Sprintf("b%d", b.Index))
		if li := vc.loops[b]; li != nil {
			cur, err = vc.enterLoop(li, cur)
			if err != nil {
				return err
			}
		}
		outs, err := vc.execBlock(b, cur)
		if err != nil {
			return err
		}
		for _, oe := range outs {
			if lh := vc.loops[b]; lh != nil && !lh.body[oe.to] {
				// the loop is left through its head (range exhausted / condition false): ghost counter behind ndone(N)
				nc := fmt.Sprintf("N_loopdone_%d", lh.ord)
				oe.st.heap[nc] = vc.define(nc, "Int", sx("+", vc.heapGet(oe.st, nc, "Int"), "1"))
			}
			if li := vc.loops[oe.to]; li != nil && li.body[b] && oe.to.Dominates(b) {
				if err := vc.backEdge(li, oe.st); err != nil {
					return err
				}
				continue
			}
			in[oe.to] = append(in[oe.to], inEdge{b, oe.st})
		}
	}
	// every declared site must have matched an anchor in the code: a site that silently disappears
	// (call removed, reordered so the ordinal no longer exists) is a failed obligation, not a pass
	for _, ss := range vc.spec.Sites {
		if vc.siteHits[ss] == 0 {
			o := vc.oblige(vc.entry, fmt.Sprintf("site@%s(%s)#%d.exists", ss.AnchorKind, ss.Anchor, ss.N), "site-exists", "false",
				"the anchor of this site assertion exists in the code: "+ss.Clause.Text, ss.Clause.Props)
			o.Result = &SolveResult{Status: "sat", Output: "anchor not found in " + vc.key}
		}
	}
	return nil
}

type outEdge struct {
	to *ssa.BasicBlock
	st *State
}

func (vc *VC) baseEnv(st *State) *Env {
	env := &Env{vc: vc, st: st, old: vc.entry, vars: map[string]Val{}, pkg: vc.fn.Pkg.Pkg}
	for k, v := range vc.paramVals {
		env.vars[k] = v
		env.vars["old:"+k] = v
	}
	return env
}

func (vc *VC) assumeGlobals(st *State) {
	for _, g := range vc.cs.GlobalInvs {
		// mode noglobal=<label>[,<label>]: this function takes input that has not been validated yet; the labelled
		// global assumption (which speaks about validated objects only) is not made inside it
		if vc.spec != nil && g.Clause.Label != "" {
			skip := false
			for _, l := range strings.Split(vc.spec.Modes["noglobal"], ",") {
				if l == g.Clause.Label {
					skip = true
				}
			}
			if skip {
				vc.notes["global assumption ["+g.Clause.Label+"] not made in this function (mode noglobal)"] = true
				continue
			}
		}
		gexpr := g.Clause.E
		extra := map[string]Val{}
		// mode exempt=<label>:<param>[,...]: the named parameter is input that has not been validated yet; the labelled
		// global assumption is made for every object except that one
		if vc.spec != nil && g.Clause.Label != "" && vc.spec.Modes["exempt"] != "" {
			for _, ex := range strings.Split(vc.spec.Modes["exempt"], ",") {
				lab, par, ok := strings.Cut(ex, ":")
				q, isQ := gexpr.(*EQuant)
				if !ok || lab != g.Clause.Label || !isQ || !q.Forall {
					continue
				}
				pv, known := vc.paramVals[par]
				if !known || pv.Ty == nil {
					continue
				}
				body := q.Body
				for _, v := range q.Vars {
					if strings.HasPrefix(v.Type, "*") && strings.HasSuffix(types.TypeString(pv.Ty, nil), "."+strings.TrimPrefix(v.Type, "*")) {
						body = &EBin{Op: "==>", L: &EBin{Op: "!=", L: &EIdent{Name: v.Name}, R: &EIdent{Name: "old:" + par}}, R: body}
					}
				}
				gexpr = &EQuant{Forall: true, Vars: q.Vars, Body: body}
				extra["old:"+par] = pv
				vc.notes["global assumption ["+lab+"] not made for the unvalidated input "+par] = true
			}
		}
		env := &Env{vc: vc, st: st, old: st, vars: map[string]Val{}, pkg: vc.fn.Pkg.Pkg}
		// evaluate in the package that declared it
		for path, sp := range vc.w.SSAPkgs {
			if strings.HasPrefix(path, modulePath) && sp.Pkg.Name() == g.Pkg {
				env.pkg = sp.Pkg
			}
		}
		// only where the declaring package is visible: the function's own package or one it imports
		if env.pkg != vc.fn.Pkg.Pkg {
			imp := false
			for _, ip := range vc.fn.Pkg.Pkg.Imports() {
				if ip == env.pkg {
					imp = true
				}
			}
			if !imp {
				continue
			}
		}
		for k, v := range extra {
			env.vars[k] = v
		}
		t, err := env.compileBool(gexpr)
		if err != nil {
			continue
		}
		vc.assume(st, t)
		if g.Checked {
			vc.assumedUse["ownership (checked by writer scan): "+g.Clause.Text] = true
		} else {
			vc.assumedUse["global assumption: "+g.Clause.Text] = true
		}
	}
}

func (vc *VC) rpo() []*ssa.BasicBlock {
	seen := map[*ssa.BasicBlock]bool{}
	var post []*ssa.BasicBlock
	var dfs func(b *ssa.BasicBlock)
	dfs = func(b *ssa.BasicBlock) {
		seen[b] = true
		for _, s := range b.Succs {
			if seen[s] {
				continue
			}
			if s.Dominates(b) { // back edge
				continue
			}
			dfs(s)
		}
		post = append(post, b)
	}
	dfs(vc.fn.Blocks[0])
	for i, j := 0, len(post)-1; i < j; i, j = i+1, j-1 {
		post[i], post[j] = post[j], post[i]
	}
	// a DFS post order that skips back edges is a topological order of the DAG only if
	// every forward/cross edge goes from earlier to later; verify and fall back to Kahn.
	idx := map[*ssa.BasicBlock]int{}
	for i, b := range post {
		idx[b] = i
	}
	ok := true
	for _, b := range post {
		for _, s := range b.Succs {
			if s.Dominates(b) {
				continue
			}
			if idx[s] <= idx[b] {
				ok = false
			}
		}
	}
	if ok {
		return post
	}
	// Kahn
	indeg := map[*ssa.BasicBlock]int{}
	for _, b := range post {
		for _, s := range b.Succs {
			if !s.Dominates(b) {
				indeg[s]++
			}
		}
	}
	var out, q []*ssa.BasicBlock
	q = append(q, vc.fn.Blocks[0])
	for len(q) > 0 {
		b := q[0]
		q = q[1:]
		out = append(out, b)
		for _, s := range b.Succs {
			if s.Dominates(b) {
				continue
			}
			indeg[s]--
			if indeg[s] == 0 {
				q = append(q, s)
			}
		}
	}
	return out
}

// ---------------------------------------------------------------- loops

func (vc *VC) findLoops() {
	vc.loops = map[*ssa.BasicBlock]*loopInfo{}
	for _, b := range vc.fn.Blocks {
		for _, s := range b.Succs {
			if s.Dominates(b) {
				li := vc.loops[s]
				if li == nil {
					li = &loopInfo{head: s, body: map[*ssa.BasicBlock]bool{s: true}}
					vc.loops[s] = li
				}
				li.latch = append(li.latch, b)
				// natural loop: everything that reaches b without passing s
				var stack []*ssa.BasicBlock
				if !li.body[b] {
					li.body[b] = true
					stack = append(stack, b)
				}
				for len(stack) > 0 {
					x := stack[len(stack)-1]
					stack = stack[:len(stack)-1]
					for _, p := range x.Preds {
						if !li.body[p] {
							li.body[p] = true
							stack = append(stack, p)
						}
					}
				}
			}
		}
	}
	var ls []*loopInfo
	for _, li := range vc.loops {
		li.minPos = token.Pos(1 << 60)
		for b := range li.body {
			for _, ins := range b.Instrs {
				if p := ins.Pos(); p.IsValid() && p < li.minPos {
					li.minPos = p
				}
			}
		}
		ls = append(ls, li)
	}
	sort.Slice(ls, func(i, j int) bool {
		if ls[i].minPos != ls[j].minPos {
			return ls[i].minPos < ls[j].minPos
		}
		return len(ls[i].body) > len(ls[j].body)
	})
	for i, li := range ls {
		li.ord = i + 1
		if vc.spec != nil {
			li.spec = vc.spec.Loops[li.ord]
		}
	}
}

// loopMods collects what a loop may modify.
type modSet struct {
	fcells map[*ssa.FreeVar]bool
	cells  map[*ssa.Alloc]bool
	comps  map[string]string // component -> sort
	all    bool
	iters  map[ssa.Value]bool
	allocs bool
}

func newModSet() *modSet {
	return &modSet{cells: map[*ssa.Alloc]bool{}, comps: map[string]string{}, iters: map[ssa.Value]bool{}, fcells: map[*ssa.FreeVar]bool{}}
}

func (vc *VC) msMap(ms *modSet, mt *types.Map) {
	d, v, ks, es := vc.mapComps(mt)
	ms.comps[d] = "(Array Int (Array " + ks + " Bool))"
	ms.comps[v] = "(Array Int (Array " + ks + " " + es + "))"
}

// contentsMods: the components holding the contents of a map or slice of type t.
func (vc *VC) contentsMods(ms *modSet, t types.Type) {
	switch u := t.Underlying().(type) {
	case *types.Map:
		vc.msMap(ms, u)
	case *types.Slice:
		vc.msElem(ms, u.Elem())
	}
}

func (vc *VC) msElem(ms *modSet, et types.Type) {
	c, es := vc.elemComp(et)
	ms.comps[c] = "(Array Int (Array Int " + es + "))"
}

func (vc *VC) msField(ms *modSet, t types.Type, idx int) {
	c, s, fld := vc.fieldCompOf(t, idx)
	if isStructLike(fld.Type()) {
		vc.structMods(fld.Type(), ms)
		return
	}
	ms.comps[c] = s
}

func (vc *VC) loopMods(li *loopInfo) *modSet {
	ms := newModSet()
	var blocks []*ssa.BasicBlock
	for b := range li.body {
		blocks = append(blocks, b)
	}
	sort.Slice(blocks, func(i, j int) bool { return blocks[i].Index < blocks[j].Index })
	for _, b := range blocks {
		for _, ins := range b.Instrs {
			vc.instrMods(ins, ms)
		}
		if l2 := vc.loops[b]; l2 != nil && l2 != li {
			ms.comps[fmt.Sprintf("N_loopdone_%d", l2.ord)] = "Int" // ghost completion counter of an inner loop
		}
	}
	return ms
}

func (vc *VC) instrMods(ins ssa.Instruction, ms *modSet) {
	switch x := ins.(type) {
	case *ssa.Store:
		vc.addrMods(x.Addr, ms)
	case *ssa.MapUpdate:
		vc.msMap(ms, x.Map.Type().Underlying().(*types.Map))
	case *ssa.Next:
		ms.iters[x.Iter] = true
	case *ssa.Alloc:
		ms.allocs = true
		if x.Heap || isStructLike(x.Type().(*types.Pointer).Elem()) {
			vc.structMods(x.Type().(*types.Pointer).Elem(), ms)
		}
	case *ssa.MakeMap:
		ms.allocs = true
		vc.msMap(ms, x.Type().Underlying().(*types.Map))
	case *ssa.MakeSlice:
		ms.allocs = true
		vc.msElem(ms, x.Type().Underlying().(*types.Slice).Elem())
	case *ssa.MakeInterface, *ssa.MakeClosure:
		ms.allocs = true
	case *ssa.Call:
		vc.callMods(&x.Call, ms)
	case *ssa.Defer:
		vc.callMods(&x.Call, ms)
	case *ssa.Send:
		ms.comps["N_send"] = "Int"
	case *ssa.Go, *ssa.Select:
		ms.all = true
	}
}

func isStructLike(t types.Type) bool {
	switch t.Underlying().(type) {
	case *types.Struct, *types.Array:
		return true
	}
	return false
}

func (vc *VC) structMods(t types.Type, ms *modSet) {
	switch u := t.Underlying().(type) {
	case *types.Struct:
		for i := 0; i < u.NumFields(); i++ {
			vc.msField(ms, t, i)
		}
	case *types.Array:
		vc.msElem(ms, u.Elem())
	}
}

func (vc *VC) addrMods(a ssa.Value, ms *modSet) {
	switch x := a.(type) {
	case *ssa.Alloc:
		if isStructLike(x.Type().(*types.Pointer).Elem()) {
			vc.structMods(x.Type().(*types.Pointer).Elem(), ms)
		} else {
			ms.cells[x] = true
		}
	case *ssa.FieldAddr:
		vc.msField(ms, x.X.Type(), x.Field)
	case *ssa.IndexAddr:
		var et types.Type
		switch u := x.X.Type().Underlying().(type) {
		case *types.Slice:
			et = u.Elem()
		case *types.Pointer:
			et = u.Elem().Underlying().(*types.Array).Elem()
		}
		if et != nil {
			if isStructLike(et) {
				vc.structMods(et, ms)
			} else {
				vc.msElem(ms, et)
			}
		}
	case *ssa.Global:
		ms.comps["G_"+x.Pkg.Pkg.Name()+"_"+x.Name()] = vc.sortOf(x.Type().(*types.Pointer).Elem())
	case *ssa.FreeVar:
		ms.fcells[x] = true
	default:
		// store through a computed pointer: pointee type decides
		if p, ok := a.Type().Underlying().(*types.Pointer); ok && isStructLike(p.Elem()) {
			vc.structMods(p.Elem(), ms)
		} else {
			ms.all = true
		}
	}
}

func (vc *VC) callMods(c *ssa.CallCommon, ms *modSet) {
	if b, ok := c.Value.(*ssa.Builtin); ok {
		switch b.Name() {
		case "append":
			if sl, ok := c.Args[0].Type().Underlying().(*types.Slice); ok {
				vc.msElem(ms, sl.Elem())
			}
			ms.allocs = true
		case "copy":
			if sl, ok := c.Args[0].Type().Underlying().(*types.Slice); ok {
				vc.msElem(ms, sl.Elem())
			}
		case "delete", "clear":
			if mt, ok := c.Args[0].Type().Underlying().(*types.Map); ok {
				vc.msMap(ms, mt)
			}
		}
		return
	}
	callee := c.StaticCallee()
	if callee == nil {
		// ghost call counters of interface methods and named function values
		if c.IsInvoke() {
			if named, ok := c.Value.Type().(*types.Named); ok && named.Obj().Pkg() != nil {
				ms.comps["N_"+sanitize(named.Obj().Pkg().Name()+"."+named.Obj().Name()+"."+c.Method.Name())] = "Int"
			}
		} else if fname := fnValueName(c.Value); fname != "" {
			ms.comps["N_"+sanitize("fn."+fname)] = "Int"
		}
	}
	if callee != nil {
		ms.comps["N_"+sanitize(funcKey(callee))] = "Int" // ghost call counter
		if vc.isDropped(callee) {
			return
		}
		if cs := vc.cs.Funcs[funcKey(callee)]; cs != nil && cs.HasAssigns {
			ms.allocs = true
			for _, t := range cs.Assigns {
				switch t.Kind {
				case "any":
					ms.all = true
				default:
					for comp, srt := range vc.targetComps(callee, t) {
						ms.comps[comp] = srt
					}
				}
			}
			return
		}
	}
	// inferred
	if vc.ms != nil {
		if eff := vc.ms.effectOf(c, vc.fn); eff != nil && !eff.all {
			ms.allocs = true
			for comp, srt := range eff.comps {
				ms.comps[comp] = srt
			}
			return
		}
	}
	ms.all = true
}

// targetComps names the heap components an assigns target of callee may touch.
func (vc *VC) targetComps(callee *ssa.Function, t Target) map[string]string {
	ms := newModSet()
	if t.Kind == "typefield" || t.Kind == "typefieldcontents" {
		id := t.X.(*EIdent)
		if obj, ok := callee.Pkg.Pkg.Scope().Lookup(id.Name).(*types.TypeName); ok {
			if i, ok := fieldIndexByName(obj.Type(), t.Sel); ok {
				if t.Kind == "typefield" {
					vc.msField(ms, obj.Type(), i)
				} else {
					vc.contentsMods(ms, obj.Type().Underlying().(*types.Struct).Field(i).Type())
				}
			}
		}
		return ms.comps
	}
	// resolve the static type of t.X in the callee's signature
	ty := vc.staticTypeOf(callee, t.X)
	if ty == nil {
		return nil
	}
	switch t.Kind {
	case "field":
		if i, ok := fieldIndexByName(ty, t.Sel); ok {
			vc.msField(ms, ty, i)
		}
	case "allfields":
		base := ty
		if p, ok := base.Underlying().(*types.Pointer); ok {
			base = p.Elem()
		}
		vc.structMods(base, ms)
	case "contents":
		switch u := ty.Underlying().(type) {
		case *types.Map:
			vc.msMap(ms, u)
		case *types.Slice:
			vc.msElem(ms, u.Elem())
		}
	}
	return ms.comps
}

func fieldIndexByName(ty types.Type, sel string) (int, bool) {
	base := ty
	if p, ok := base.Underlying().(*types.Pointer); ok {
		base = p.Elem()
	}
	st, ok := base.Underlying().(*types.Struct)
	if !ok {
		return 0, false
	}
	for i := 0; i < st.NumFields(); i++ {
		if st.Field(i).Name() == sel {
			return i, true
		}
	}
	return 0, false
}

func (vc *VC) fieldCompByName(ty types.Type, sel string) (string, bool) {
	base := ty
	if p, ok := base.Underlying().(*types.Pointer); ok {
		base = p.Elem()
	}
	st, ok := base.Underlying().(*types.Struct)
	if !ok {
		return "", false
	}
	for i := 0; i < st.NumFields(); i++ {
		if st.Field(i).Name() == sel {
			c, _, _ := vc.fieldCompOf(base, i)
			return c, true
		}
	}
	return "", false
}

// staticTypeOf computes the Go type of a contract expression over callee's parameters.
func (vc *VC) staticTypeOf(callee *ssa.Function, e Expr) types.Type {
	switch x := e.(type) {
	case *EIdent:
		for _, p := range callee.Params {
			if p.Name() == x.Name {
				return p.Type()
			}
		}
		if obj, ok := callee.Pkg.Pkg.Scope().Lookup(x.Name).(*types.Var); ok {
			return obj.Type()
		}
		res := callee.Signature.Results()
		spec := vc.cs.Funcs[funcKey(callee)]
		for i := 0; i < res.Len(); i++ {
			n := res.At(i).Name()
			if spec != nil && i < len(spec.ResultNames) {
				n = spec.ResultNames[i]
			}
			if n == x.Name {
				return res.At(i).Type()
			}
		}
	case *ESel:
		bt := vc.staticTypeOf(callee, x.X)
		if bt == nil {
			return nil
		}
		if p, ok := bt.Underlying().(*types.Pointer); ok {
			bt = p.Elem()
		}
		if st, ok := bt.Underlying().(*types.Struct); ok {
			for i := 0; i < st.NumFields(); i++ {
				if st.Field(i).Name() == x.Sel {
					return st.Field(i).Type()
				}
			}
		}
	case *EIndex:
		bt := vc.staticTypeOf(callee, x.X)
		if bt == nil {
			return nil
		}
		switch u := bt.Underlying().(type) {
		case *types.Map:
			return u.Elem()
		case *types.Slice:
			return u.Elem()
		}
	case *ECall:
		if x.Fun == "old" && len(x.Args) == 1 {
			return vc.staticTypeOf(callee, x.Args[0])
		}
	}
	return nil
}

// enterLoop checks the invariants on entry, havocs what the loop modifies and assumes the invariants.
func (vc *VC) enterLoop(li *loopInfo, pre *State) (*State, error) {
	li.preState = pre.clone()
	spec := li.spec
	sweep := vc.spec.Sweep
	if spec == nil && !sweep {
		return nil, fmt.Errorf("%s: loop %d has no invariant (functions under functional contract need one)", vc.key, li.ord)
	}
	vc.curPos = li.minPos
	envOf := func(st *State) *Env {
		env := vc.baseEnv(st)
		vc.localVars(st, env.vars, nil)
		// the map-range iterator of this loop, if any
		for _, ins := range li.head.Instrs {
			if nx, ok := ins.(*ssa.Next); ok {
				if seenT, ok := st.iters[nx.Iter]; ok {
					env.seen = func(k Val) (string, error) { return sx("select", seenT, k.T), nil }
				}
			}
		}
		return env
	}
	li.env = envOf
	if spec != nil && spec.Exhaustive {
		// every edge that leaves the loop starts at the loop head (the range / condition check): no break, no return
		goal := "true"
		for b := range li.body {
			if b == li.head {
				continue
			}
			for _, sc := range b.Succs {
				if !li.body[sc] {
					goal = "false"
				}
			}
			if len(b.Succs) == 0 {
				goal = "false"
			}
		}
		vc.oblige(pre, fmt.Sprintf("loop%d.exhaustive", li.ord), "loop.exhaustive", goal, "the loop is only left through its range/condition check (no break or return inside the body)", nil)
	}
	if spec != nil {
		env := envOf(pre)
		for _, c := range spec.Invariants {
			t, err := env.compileBool(c.E)
			if err != nil {
				return nil, fmt.Errorf("%s loop %d invariant#%d: %v", vc.key, li.ord, c.N, err)
			}
			vc.oblige(pre, fmt.Sprintf("loop%d.init#%d", li.ord, c.N), "loop.init", t, c.Text, c.Props)
		}
	}
	// havoc
	ms := vc.loopMods(li)
	head := pre.clone()
	if ms.all {
		vc.havocAll(head, fmt.Sprintf("loop %d contains an unmodelled effect", li.ord))
	} else {
		// targets the loop may write (default: the function's assigns + fresh objects)
		var tgts []Target
		hasT := false
		if spec != nil && spec.HasAssigns {
			tgts, hasT = spec.Assigns, true
		} else if vc.spec.HasAssigns {
			tgts, hasT = vc.spec.Assigns, true
		}
		tenv := envOf(pre)
		var loopDecl [][3]string
		defer func() {
			for _, d := range loopDecl {
				vc.closed(d[0], d[1], d[2], head.allocTop)
			}
		}()
		for _, comp := range sortedKeys(ms.comps) {
			sortC := ms.comps[comp]
			old := vc.heapGet(pre, comp, sortC)
			nw := vc.declare(comp+"_loop", sortC)
			head.heap[comp] = nw
			loopDecl = append(loopDecl, [3]string{nw, comp, sortC})
			if strings.HasPrefix(sortC, "(Array Int ") && hasT {
				// frame: objects that are neither fresh nor in the targets keep their value
				q := vc.fresh("o")
				var ex []string
				ex = append(ex, sx(">", q, vc.allocBase))
				anyT := false
				for _, t := range tgts {
					if t.Kind == "any" {
						anyT = true
						break
					}
					refs, err := vc.targetRefs(tenv, t, comp)
					if err != nil {
						return nil, fmt.Errorf("%s loop %d assigns: %v", vc.key, li.ord, err)
					}
					for _, r := range refs {
						if r == "*" {
							anyT = true
						} else {
							ex = append(ex, sx("=", q, r))
						}
					}
				}
				if !anyT {
					vc.assume(head, fmt.Sprintf("(forall ((%s Int)) (! (=> (not %s) (= (select %s %s) (select %s %s))) :pattern ((select %s %s))))",
						q, smtOr(ex...), nw, q, old, q, nw, q))
				}
			}
		}
		for c := range ms.cells {
			if _, ok := head.cells[c]; ok {
				ty := c.Type().(*types.Pointer).Elem()
				head.cells[c] = vc.declare("cell_"+c.Comment, vc.sortOf(ty))
			}
		}
		for fv := range ms.fcells {
			if _, ok := head.fcells[fv]; ok {
				et := fv.Type().(*types.Pointer).Elem()
				head.fcells[fv] = vc.declare("fv_"+sanitize(fv.Name())+"_loop", vc.sortOf(et))
				vc.assumeType(head, head.fcells[fv], et)
			}
		}
		for it := range ms.iters {
			if _, ok := head.iters[it]; ok {
				ks := "Int"
				if ri := vc.ranges[it]; ri != nil && ri.mapType != nil {
					ks = vc.sortOf(ri.mapType.Key())
				}
				head.iters[it] = vc.declare("seen", "(Array "+ks+" Bool)")
			}
		}
		if ms.allocs {
			old := head.allocTop
			head.allocTop = vc.declare("allocTop", "Int")
			vc.assume(head, sx("<=", old, head.allocTop))
		}
		// cells get their type facts only now that allocTop is final
		for c := range ms.cells {
			if v, ok := head.cells[c]; ok {
				vc.assumeType(head, v, c.Type().(*types.Pointer).Elem())
				if c.Comment == "rangeindex" {
					// the hidden index of a slice range starts at -1 and only grows by one under the "< len" guard
					vc.assume(head, sx("and", sx(">=", v, "(- 1)"), sx("<=", v, "4611686018427387904")))
				}
			}
		}
	}
	vc.assumeGlobals(head)
	if spec != nil {
		env := envOf(head)
		for _, c := range spec.Invariants {
			t, err := env.compileBool(c.E)
			if err != nil {
				return nil, fmt.Errorf("%s loop %d invariant#%d: %v", vc.key, li.ord, c.N, err)
			}
			vc.assume(head, t)
		}
	}
	li.headState = head.clone()
	head.iter = li.headState
	return head, nil
}

func (vc *VC) backEdge(li *loopInfo, st *State) error {
	if li.spec == nil {
		return nil
	}
	vc.curPos = li.minPos
	env := li.env(st)
	for _, c := range li.spec.Invariants {
		t, err := env.compileBool(c.E)
		if err != nil {
			return fmt.Errorf("%s loop %d invariant#%d: %v", vc.key, li.ord, c.N, err)
		}
		vc.oblige(st, fmt.Sprintf("loop%d.preserve#%d", li.ord, c.N), "loop.preserve", t, c.Text, c.Props)
	}
	for _, c := range li.spec.Each {
		env.iterSt = li.headState
		t, err := env.compileBool(c.E)
		if err != nil {
			return fmt.Errorf("%s loop %d each#%d: %v", vc.key, li.ord, c.N, err)
		}
		vc.oblige(st, fmt.Sprintf("loop%d.each#%d", li.ord, c.N), "loop.each", t, c.Text, c.Props)
	}
	if d := li.spec.Decreases; d != nil {
		e0 := li.env(li.headState)
		v0, err := e0.compileVal(d.E)
		if err != nil {
			return err
		}
		v1, err := env.compileVal(d.E)
		if err != nil {
			return err
		}
		vc.oblige(st, fmt.Sprintf("loop%d.decreases", li.ord), "loop.decreases",
			sx("and", sx("<", v1.T, v0.T), sx(">=", v0.T, "0")), d.Text, nil)
	}
	return nil
}

// targetRefs evaluates an assigns target to the object refs (for component comp) it covers;
// "*" means every object.
func (vc *VC) targetRefs(env *Env, t Target, comp string) ([]string, error) {
	switch t.Kind {
	case "any":
		return []string{"*"}, nil
	case "typefield":
		id := t.X.(*EIdent)
		ty, _ := env.lookupTypeSafe(id.Name)
		if ty != nil {
			if c, ok := vc.fieldCompByName(ty, t.Sel); ok && c == comp {
				return []string{"*"}, nil
			}
		}
		return nil, nil
	case "typefieldcontents":
		id := t.X.(*EIdent)
		ty, _ := env.lookupTypeSafe(id.Name)
		if ty != nil {
			if i, ok := fieldIndexByName(ty, t.Sel); ok {
				ms := newModSet()
				vc.contentsMods(ms, ty.Underlying().(*types.Struct).Field(i).Type())
				if _, ok := ms.comps[comp]; ok {
					return []string{"*"}, nil
				}
			}
		}
		return nil, nil
	}
	v, err := env.compileVal(t.X)
	if err != nil {
		return nil, err
	}
	if v.Ty == nil {
		return nil, fmt.Errorf("assigns target %s has no Go type", t.Src)
	}
	switch t.Kind {
	case "field":
		if c, ok := vc.fieldCompByName(v.Ty, t.Sel); ok {
			if c == comp {
				return []string{v.T}, nil
			}
			return nil, nil
		}
		return nil, fmt.Errorf("target-exists: %s", t.Src)
	case "allfields":
		base := v.Ty
		if p, ok := base.Underlying().(*types.Pointer); ok {
			base = p.Elem()
		}
		ms := newModSet()
		vc.structMods(base, ms)
		if _, ok := ms.comps[comp]; ok {
			return []string{v.T}, nil
		}
		return nil, nil
	case "contents":
		switch u := v.Ty.Underlying().(type) {
		case *types.Map:
			d, vv, _, _ := vc.mapComps(u)
			if comp == d || comp == vv {
				return []string{v.T}, nil
			}
		case *types.Slice:
			c, _ := vc.elemComp(u.Elem())
			if comp == c {
				return []string{sx("sbase", v.T)}, nil
			}
		}
		return nil, nil
	}
	return nil, nil
}

func (env *Env) lookupTypeSafe(name string) (t types.Type, s string) {
	defer func() {
		if r := recover(); r != nil {
			t, s = nil, ""
		}
	}()
	return env.lookupType(name)
}

// ---------------------------------------------------------------- values

func (vc *VC) val(st *State, v ssa.Value) string {
	switch x := v.(type) {
	case *ssa.Const:
		return vc.constTerm(x)
	case *ssa.Function:
		return vc.declareNamed("fn_"+sanitize(funcKey(x)), "Int")
	case *ssa.Builtin:
		return "0"
	case *ssa.Global:
		// address of a global: only meaningful through addrs
		return "0"
	}
	if t, ok := vc.vals[v]; ok {
		return t
	}
	// value not computed (unsupported producer): unconstrained
	t := vc.declare("unk_"+v.Name(), vc.sortOf(v.Type()))
	vc.vals[v] = t
	vc.unsupp["value of "+fmt.Sprintf("%T", v)] = true
	return t
}

func (vc *VC) constTerm(c *ssa.Const) string {
	if c.Value == nil {
		return vc.zeroOf(c.Type())
	}
	switch vc.sortOf(c.Type()) {
	case "Bool":
		return fmt.Sprint(constant.BoolVal(c.Value))
	case "Int":
		if c.Value.Kind() == constant.Int {
			return smtIntS(c.Value.ExactString())
		}
		if c.Value.Kind() == constant.Float {
			// integer typed constant expressed as float
			if i := constant.ToInt(c.Value); i.Kind() == constant.Int {
				return smtIntS(i.ExactString())
			}
		}
		return "0"
	case "Str":
		return vc.strLit(constant.StringVal(c.Value))
	case "Real":
		r := constant.ToFloat(c.Value)
		num, den := constant.Num(r), constant.Denom(r)
		if num.Kind() == constant.Int && den.Kind() == constant.Int {
			n, d := smtIntS(num.ExactString()), den.ExactString()
			return sx("/", strings.Replace(sx("to_real", n), "(to_real ", "(to_real ", 1), d+".0")
		}
		return "0.0"
	case "(_ FloatingPoint 11 53)":
		f, _ := constant.Float64Val(constant.ToFloat(c.Value))
		return fpLiteral(f)
	}
	return "0"
}

func (vc *VC) setVal(v ssa.Value, t string) {
	vc.vals[v] = vc.define(v.Name(), vc.sortOf(v.Type()), t)
}

// addrOf resolves a pointer-typed SSA value to a symbolic address.
func (vc *VC) addrOf(st *State, v ssa.Value) *Addr {
	if a, ok := vc.addrs[v]; ok {
		return a
	}
	switch x := v.(type) {
	case *ssa.Global:
		ty := x.Type().(*types.Pointer).Elem()
		return &Addr{Kind: "global", Comp: "G_" + x.Pkg.Pkg.Name() + "_" + x.Name(), Sort: vc.sortOf(ty), Typ: ty}
	case *ssa.FreeVar:
		if st.fcells != nil {
			if _, ok := st.fcells[x]; ok {
				ty := x.Type().(*types.Pointer).Elem()
				return &Addr{Kind: "fcell", FV: x, Sort: vc.sortOf(ty), Typ: ty}
			}
		}
	}
	// a plain pointer value: address of an object
	if p, ok := v.Type().Underlying().(*types.Pointer); ok {
		return &Addr{Kind: "obj", Ref: vc.val(st, v), Typ: p.Elem()}
	}
	return nil
}

// ---------------------------------------------------------------- panics

func (vc *VC) panicOb(st *State, kind, anchor, goal string) {
	if vc.spec != nil && !vc.spec.NoPanic {
		// partial correctness: execution only continues past this point if it did not panic here
		vc.assume(st, goal)
		return
	}
	k := kind + "@" + anchor
	vc.panicOrd[k]++
	name := fmt.Sprintf("panic.%s@%s#%d", kind, anchor, vc.panicOrd[k])
	var props []string
	if vc.spec != nil && hasProp(vc.spec.Props, "C13") {
		props = []string{"C13"} // panic-freedom is C13's clause; it does not count towards the function's other properties
	}
	vc.oblige(st, name, "panic."+kind, goal, "no "+kind+" panic at "+anchor, props)
}

// ---------------------------------------------------------------- block execution

func (vc *VC) execBlock(b *ssa.BasicBlock, st *State) ([]outEdge, error) {
	for _, ins := range b.Instrs {
		if p := ins.Pos(); p.IsValid() {
			vc.curPos = p
		}
		switch x := ins.(type) {
		case *ssa.If:
			c := vc.val(st, x.Cond)
			t := st.clone()
			t.reach = vc.define(fmt.Sprintf("e%d_%d", b.Index, b.Succs[0].Index), "Bool", smtAnd(st.reach, c))
			f := st.clone()
			f.reach = vc.define(fmt.Sprintf("e%d_%d", b.Index, b.Succs[1].Index), "Bool", smtAnd(st.reach, smtNot(c)))
			vc.edgeReach[[2]int{b.Index, b.Succs[0].Index}] = t.reach
			vc.edgeReach[[2]int{b.Index, b.Succs[1].Index}] = f.reach
			return []outEdge{{b.Succs[0], t}, {b.Succs[1], f}}, nil
		case *ssa.Jump:
			vc.edgeReach[[2]int{b.Index, b.Succs[0].Index}] = st.reach
			return []outEdge{{b.Succs[0], st}}, nil
		case *ssa.Return:
			if err := vc.doReturn(st, x); err != nil {
				return nil, err
			}
			return nil, nil
		case *ssa.Panic:
			vc.panicOb(st, "explicit", "panic", "false")
			return nil, nil
		default:
			if err := vc.exec(st, ins); err != nil {
				return nil, err
			}
		}
	}
	return nil, nil
}

func (vc *VC) doReturn(st *State, r *ssa.Return) error {
	env := vc.baseEnv(st)
	res := vc.fn.Signature.Results()
	for i := 0; i < res.Len(); i++ {
		t := vc.val(st, r.Results[i])
		name := res.At(i).Name()
		if i < len(vc.spec.ResultNames) {
			name = vc.spec.ResultNames[i]
		}
		v := Val{T: t, S: vc.sortOf(res.At(i).Type()), Ty: res.At(i).Type()}
		if name != "" && name != "_" {
			env.vars[name] = v
		}
		env.vars[fmt.Sprintf("result%d", i)] = v
		if res.Len() == 1 {
			env.vars["result"] = v
		}
	}
	vc.curPos = r.Pos()
	vc.retOrd++
	// vacuity guard: the return point itself must be reachable under everything assumed so far (a contradictory
	// assumption - e.g. a callee postcondition that cannot hold - would make every obligation below it void)
	vc.coverOnce(st, fmt.Sprintf("cover.ret%d", vc.retOrd))
	var resTerms []string
	for i := 0; i < res.Len(); i++ {
		resTerms = append(resTerms, env.vars[fmt.Sprintf("result%d", i)].T)
	}
	for _, c := range vc.spec.Ensures {
		parts, err := vc.splitClause(env, c)
		if err != nil {
			return fmt.Errorf("%s ensures#%d: %v", vc.key, c.N, err)
		}
		for _, pt := range parts {
			name := fmt.Sprintf("ensures#%d", c.N)
			if c.Label != "" {
				name = "ensures[" + c.Label + "]"
			}
			name += pt.suffix + fmt.Sprintf("@ret%d", vc.retOrd)
			o := vc.oblige(st, name, "ensures", pt.term, pt.text, c.Props)
			o.Hint = &ReplayHint{Params: vc.paramTerms, Results: resTerms, Reach: st.reach}
		}
	}
	return nil
}

type clausePart struct{ suffix, term, text string }

// splitClause compiles a clause; a clause that is exactly inv(x) yields one part per invariant clause so
// that each gets its own named obligation.
func (vc *VC) splitClause(env *Env, c *Clause) ([]clausePart, error) {
	if call, ok := c.E.(*ECall); ok && call.Fun == "inv" && len(call.Args) == 1 {
		v, err := env.compileVal(call.Args[0])
		if err != nil {
			return nil, err
		}
		if ti := vc.typeInvOf(v.Ty); ti != nil {
			var out []clausePart
			for _, ic := range ti.Clauses {
				lab := ic.Label
				if lab == "" {
					lab = fmt.Sprint(ic.N)
				}
				t, err := env.with(ti.Var, v).compileBool(ic.E)
				if err != nil {
					return nil, err
				}
				out = append(out, clausePart{".inv[" + lab + "]", t, "inv(" + call.Args[0].String() + ")[" + lab + "]: " + ic.Text})
			}
			return out, nil
		}
	}
	t, err := env.compileBool(c.E)
	if err != nil {
		return nil, err
	}
	return []clausePart{{"", t, c.Text}}, nil
}

func (vc *VC) exec(st *State, ins ssa.Instruction) error {
	switch x := ins.(type) {
	case *ssa.Alloc:
		vc.doAlloc(st, x)
	case *ssa.Store:
		vc.store(st, x.Addr, vc.val(st, x.Val), x.Val.Type(), x.Val)
	case *ssa.UnOp:
		vc.unop(st, x)
	case *ssa.BinOp:
		vc.binop(st, x)
	case *ssa.FieldAddr:
		base := vc.val(st, x.X)
		// x.X may itself be an address of a nested struct
		embedded := false
		if a, ok := vc.addrs[x.X]; ok && a.Kind == "obj" {
			base = a.Ref
			embedded = a.Sub
		}
		if g, ok := x.X.(*ssa.Global); ok {
			// a package-level struct variable: its storage is a fixed non-nil object
			base = vc.declareNamed("gaddr_"+g.Pkg.Pkg.Name()+"_"+g.Name(), "Int")
			embedded = true
		}
		if vc.inlineDepth == 0 && vc.spec != nil && len(vc.spec.Sites) > 0 {
			// "at fieldaddr Type.field#n: assert e" - e sees the dereferenced pointer as base (nil-safety of one access)
			fname := fieldName(x.X.Type(), x.Field)
			for _, ss := range vc.spec.Sites {
				if ss.AnchorKind != "fieldaddr" || ss.Anchor != fname || (ss.N != 0 && ss.N != vc.faOrd[x]) {
					continue
				}
				vc.siteHits[ss]++
				env := vc.baseEnv(st)
				vc.localVars(st, env.vars, nil)
				env.vars["base"] = Val{T: base, S: "Int", Ty: x.X.Type()}
				t, err := env.compileBool(ss.Clause.E)
				if err != nil {
					return fmt.Errorf("%s: site fieldaddr %s: %v", vc.key, fname, err)
				}
				if ss.IsAssume {
					vc.assume(st, t)
					vc.assumedUse[fmt.Sprintf("assume at fieldaddr %s#%d in %s: %s", fname, vc.faOrd[x], vc.key, ss.Clause.Text)] = true
					continue
				}
				name := fmt.Sprintf("site@fieldaddr(%s)#%d", fname, vc.faOrd[x])
				if ss.Clause.Label != "" {
					name += "[" + ss.Clause.Label + "]"
				}
				vc.oblige(st, name, "site", t, ss.Clause.Text, ss.Clause.Props)
			}
		}
		if !embedded { // storage embedded in another object is never nil by itself
			vc.panicOb(st, "nil", "field("+fieldName(x.X.Type(), x.Field)+")", sx("not", sx("=", base, "0")))
		}
		comp, sortC, fld := vc.fieldCompOf(x.X.Type(), x.Field)
		a := &Addr{Kind: "field", Comp: comp, Sort: vc.sortOf(fld.Type()), Ref: base, Typ: fld.Type()}
		_ = sortC
		if isStructLike(fld.Type()) {
			// nested struct stored in place: identify its storage by a sub-object ref
			f := vc.subFun(comp)
			a = &Addr{Kind: "obj", Ref: sx(f, base), Typ: fld.Type(), Sub: true}
		}
		vc.addrs[x] = a
		vc.vals[x] = a.Ref
	case *ssa.Field:
		// field of a struct value (a ref to a snapshot)
		base := vc.val(st, x.X)
		comp, sortC, fld := vc.fieldCompOf(x.X.Type(), x.Field)
		if isStructLike(fld.Type()) {
			f := vc.subFun(comp)
			vc.setVal(x, sx(f, base))
		} else {
			vc.setVal(x, sx("select", vc.heapGet(st, comp, sortC), base))
		}
	case *ssa.IndexAddr:
		vc.indexAddr(st, x)
	case *ssa.Index:
		// index of array value (a ref to a snapshot copy) or string
		if arr, ok := x.X.Type().Underlying().(*types.Array); ok && !isStructLike(arr.Elem()) {
			base, idx := vc.val(st, x.X), vc.val(st, x.Index)
			vc.panicOb(st, "index", "array("+typeName(arr.Elem())+")", sx("and", sx("<=", "0", idx), sx("<", idx, fmt.Sprint(arr.Len()))))
			comp, es := vc.elemComp(arr.Elem())
			vc.setVal(x, sx("select", sx("select", vc.heapGet(st, comp, "(Array Int (Array Int "+es+"))"), base), idx))
			vc.assumeType(st, vc.vals[x], x.Type())
		} else {
			vc.setFresh(st, x, "index")
		}
	case *ssa.Lookup:
		vc.lookup(st, x)
	case *ssa.MapUpdate:
		vc.mapUpdate(st, x)
	case *ssa.MakeMap:
		mt := x.Type().Underlying().(*types.Map)
		dom, val, ks, vs := vc.mapComps(mt)
		r := vc.newRef(st, "map")
		ds, vsrt := "(Array Int (Array "+ks+" Bool))", "(Array Int (Array "+ks+" "+vs+"))"
		vc.heapSet(st, dom, ds, sx("store", vc.heapGet(st, dom, ds), r, "((as const (Array "+ks+" Bool)) false)"))
		vc.heapSet(st, val, vsrt, sx("store", vc.heapGet(st, val, vsrt), r, "((as const (Array "+ks+" "+vs+")) "+zeroOfSort(vs)+")"))
		vc.vals[x] = r
	case *ssa.MakeSlice:
		vc.makeSlice(st, x)
	case *ssa.Slice:
		vc.sliceOp(st, x)
	case *ssa.Range:
		vc.rangeStart(st, x)
	case *ssa.Next:
		vc.next(st, x)
	case *ssa.Extract:
		if tup, ok := vc.tuples[x.Tuple]; ok && x.Index < len(tup) {
			vc.vals[x] = tup[x.Index]
		} else {
			vc.setFresh(st, x, "extract")
		}
	case *ssa.Phi:
		vc.phi(st, x)
	case *ssa.Call:
		return vc.call(st, x, &x.Call)
	case *ssa.Defer:
		st.defers = append(st.defers, x)
	case *ssa.RunDefers:
		for i := len(st.defers) - 1; i >= 0; i-- {
			d := st.defers[i]
			if err := vc.call(st, nil, &d.Call); err != nil {
				return err
			}
		}
	case *ssa.ChangeType:
		vc.vals[x] = vc.val(st, x.X)
		if a, ok := vc.addrs[x.X]; ok {
			vc.addrs[x] = a
		}
	case *ssa.Convert:
		vc.convert(st, x)
	case *ssa.MakeInterface:
		vc.makeInterface(st, x)
	case *ssa.ChangeInterface:
		vc.vals[x] = vc.val(st, x.X)
	case *ssa.TypeAssert:
		vc.typeAssert(st, x)
	case *ssa.MakeClosure:
		r := vc.newRef(st, "closure")
		vc.vals[x] = r
		vc.closures[x] = x
	case *ssa.DebugRef:
	case *ssa.Go:
		vc.unsupp["go statement"] = true
		// the ghost counters behind ncalls()/nsends()/ndone() count what THIS activation did: a goroutine started here
		// cannot change them, everything else is forgotten
		keep := map[string]string{}
		for c, v := range st.heap {
			if strings.HasPrefix(c, "N_") {
				keep[c] = v
			}
		}
		vc.havocAll(st, "go statement")
		for c, v := range keep {
			st.heap[c] = v
		}
	case *ssa.Send:
		// a channel send changes no modelled state (channel buffers are not modelled, blocking is not modelled): it is
		// counted by the ghost counter behind nsends() and can carry site assertions (at send chan#n: arg0 = channel, arg1 = value)
		vc.assumedUse["channel send is a counted no-op on the modelled heap (sequential semantics; blocking and the receiver are not modelled)"] = true
		vc.sendOrd++
		if err := vc.siteAsserts(st, "send", "chan", vc.sendOrd, "before", []ssa.Value{x.Chan, x.X}, nil); err != nil {
			return err
		}
		st.heap["N_send"] = vc.define("N_send", "Int", sx("+", vc.heapGet(st, "N_send", "Int"), "1"))
	case *ssa.MakeChan:
		// a new channel is a fresh object; channel contents are not modelled
		vc.vals[x] = vc.newRef(st, "chan")
	case *ssa.Select:
		vc.unsupp[fmt.Sprintf("%T", x)] = true
		if v, ok := ins.(ssa.Value); ok {
			vc.setFresh(st, v, "chan")
		}
		vc.havocAll(st, "channel operation")
	case *ssa.SliceToArrayPointer, *ssa.MultiConvert:
		vc.setFresh(st, x.(ssa.Value), "conv")
	default:
		return fmt.Errorf("%s: unsupported instruction %T", vc.key, ins)
	}
	return nil
}

func fieldName(t types.Type, idx int) string {
	if p, ok := t.Underlying().(*types.Pointer); ok {
		t = p.Elem()
	}
	st := t.Underlying().(*types.Struct)
	n := typeName(t)
	if i := strings.Index(n, "_"); i >= 0 {
		n = n[i+1:]
	}
	return n + "." + st.Field(idx).Name()
}

func (vc *VC) setFresh(st *State, v ssa.Value, hint string) string {
	if tup, ok := v.Type().(*types.Tuple); ok {
		var ts []string
		for i := 0; i < tup.Len(); i++ {
			t := vc.declare(v.Name()+"_"+hint, vc.sortOf(tup.At(i).Type()))
			vc.assumeType(st, t, tup.At(i).Type())
			ts = append(ts, t)
		}
		vc.tuples[v] = ts
		return ""
	}
	t := vc.declare(v.Name()+"_"+hint, vc.sortOf(v.Type()))
	vc.assumeType(st, t, v.Type())
	vc.vals[v] = t
	return t
}

func (vc *VC) doAlloc(st *State, x *ssa.Alloc) {
	ty := x.Type().(*types.Pointer).Elem()
	if isStructLike(ty) {
		r := vc.newRef(st, "obj_"+typeName(ty))
		vc.zeroStruct(st, ty, r)
		vc.vals[x] = r
		vc.addrs[x] = &Addr{Kind: "obj", Ref: r, Typ: ty}
		if x.Comment != "" && !strings.Contains(x.Comment, "$") && x.Comment != "complit" && x.Comment != "varargs" {
			// a named local of struct type: contracts can name it (its storage is this object)
			vc.namedObjs[x.Comment] = Val{T: r, S: "Int", Ty: ty}
		}
		return
	}
	st.cells[x] = vc.zeroOf(ty)
	vc.allocCount++
	vc.allocSeq[x] = vc.allocCount
	if vc.inlineDepth > 0 {
		// locals of an inlined callee are not names of the function under contract
		if vc.inlineAllocs == nil {
			vc.inlineAllocs = map[*ssa.Alloc]bool{}
		}
		vc.inlineAllocs[x] = true
	}
	vc.addrs[x] = &Addr{Kind: "cell", Cell: x, Typ: ty, Sort: vc.sortOf(ty)}
	vc.vals[x] = "0"
}

func (vc *VC) zeroStruct(st *State, ty types.Type, r string) {
	switch u := ty.Underlying().(type) {
	case *types.Struct:
		for i := 0; i < u.NumFields(); i++ {
			comp, sortC, fld := vc.fieldCompOf(ty, i)
			if isStructLike(fld.Type()) {
				f := vc.subFun(comp)
				vc.zeroStruct(st, fld.Type(), sx(f, r))
				continue
			}
			vc.heapSet(st, comp, sortC, sx("store", vc.heapGet(st, comp, sortC), r, vc.zeroOf(fld.Type())))
		}
	case *types.Array:
		comp, es := vc.elemComp(u.Elem())
		sortC := "(Array Int (Array Int " + es + "))"
		vc.heapSet(st, comp, sortC, sx("store", vc.heapGet(st, comp, sortC), r, "((as const (Array Int "+es+")) "+zeroOfSort(es)+")"))
	}
}

// copyStruct copies every field of the struct stored at src to dst.
func (vc *VC) copyStruct(st *State, ty types.Type, dst, src string) {
	switch u := ty.Underlying().(type) {
	case *types.Struct:
		for i := 0; i < u.NumFields(); i++ {
			comp, sortC, fld := vc.fieldCompOf(ty, i)
			if isStructLike(fld.Type()) {
				f := vc.subFun(comp)
				vc.copyStruct(st, fld.Type(), sx(f, dst), sx(f, src))
				continue
			}
			arr := vc.heapGet(st, comp, sortC)
			vc.heapSet(st, comp, sortC, sx("store", arr, dst, sx("select", arr, src)))
		}
	case *types.Array:
		comp, es := vc.elemComp(u.Elem())
		sortC := "(Array Int (Array Int " + es + "))"
		arr := vc.heapGet(st, comp, sortC)
		vc.heapSet(st, comp, sortC, sx("store", arr, dst, sx("select", arr, src)))
	}
}

func (vc *VC) load(st *State, a *Addr, resTy types.Type) string {
	switch a.Kind {
	case "cell":
		if t, ok := st.cells[a.Cell]; ok {
			return t
		}
		// cell not live on this path (allocated in a sibling branch): unconstrained
		t := vc.declare("deadcell", a.Sort)
		return t
	case "fcell":
		return st.fcells[a.FV]
	case "field":
		t := sx("select", vc.heapGet(st, a.Comp, "(Array Int "+a.Sort+")"), a.Ref)
		return t
	case "elem":
		return sx("select", sx("select", vc.heapGet(st, a.Comp, "(Array Int (Array Int "+a.Sort+"))"), a.Ref), a.Idx)
	case "global":
		t := vc.heapGet(st, a.Comp, a.Sort)
		if n, ok := a.Typ.(*types.Named); ok && n.Obj().Pkg() == nil && n.Obj().Name() == "error" && strings.HasPrefix(a.Comp, "G_") {
			// package-level error variables (var ErrX = errors.New(...)) are non-nil; checked: no function other
			// than the package initialiser stores to them (writer scan in the mod-set analysis)
			if vc.ms == nil || vc.ms.onlyInitWrites(a.Comp) {
				vc.assume(st, sx("not", sx("=", t, "0")))
				vc.assumedUse["package-level error variables are non-nil (only written by package initialisers: checked)"] = true
			}
		}
		return t
	case "obj":
		if isStructLike(a.Typ) {
			// loading a whole struct: snapshot copy
			r := vc.newRef(st, "copy_"+typeName(a.Typ))
			vc.copyStruct(st, a.Typ, r, a.Ref)
			return r
		}
		// pointer to a scalar we do not track: unknown
		vc.unsupp["load through untracked pointer"] = true
		return vc.declare("deref", vc.sortOf(resTy))
	}
	return "0"
}

func (vc *VC) store(st *State, addr ssa.Value, val string, valTy types.Type, valV ssa.Value) {
	a := vc.addrOf(st, addr)
	if a == nil {
		vc.havocAll(st, "store through unknown address")
		return
	}
	switch a.Kind {
	case "cell":
		st.cells[a.Cell] = val
	case "fcell":
		st.fcells[a.FV] = val
	case "field":
		vc.writeCheck(st, a.Comp, a.Ref)
		sortC := "(Array Int " + a.Sort + ")"
		vc.heapSet(st, a.Comp, sortC, sx("store", vc.heapGet(st, a.Comp, sortC), a.Ref, val))
	case "elem":
		vc.writeCheck(st, a.Comp, a.Ref)
		sortC := "(Array Int (Array Int " + a.Sort + "))"
		arr := vc.heapGet(st, a.Comp, sortC)
		vc.heapSet(st, a.Comp, sortC, sx("store", arr, a.Ref, sx("store", sx("select", arr, a.Ref), a.Idx, val)))
	case "global":
		if vc.spec.HasAssigns {
			vc.assignsOb(st, "false", "global "+a.Comp)
		}
		vc.heapSet(st, a.Comp, a.Sort, val)
	case "obj":
		if isStructLike(a.Typ) {
			if !a.Sub {
				vc.panicOb(st, "nil", "store(*"+typeName(a.Typ)+")", sx("not", sx("=", a.Ref, "0")))
			}
			vc.copyStruct(st, a.Typ, a.Ref, val)
			return
		}
		vc.unsupp["store through untracked pointer"] = true
		vc.havocAll(st, "store through untracked pointer")
	}
}

// writeCheck generates the frame obligation for a heap write when the function declares assigns.
func (vc *VC) writeCheck(st *State, comp, ref string) {
	if vc.spec == nil || !vc.spec.HasAssigns {
		return
	}
	env := vc.baseEnv(vc.entry)
	ok := []string{sx(">", ref, vc.allocBase)}
	for _, t := range vc.spec.Assigns {
		refs, err := vc.targetRefs(env, t, comp)
		if err != nil {
			continue
		}
		for _, r := range refs {
			if r == "*" {
				return
			}
			ok = append(ok, sx("=", ref, r))
		}
	}
	vc.assignsOb(st, smtOr(ok...), comp)
}

func (vc *VC) assignsOb(st *State, goal, what string) {
	vc.assignOrd++
	vc.oblige(st, fmt.Sprintf("assigns#%d(%s)", vc.assignOrd, what), "assigns", goal, "write to "+what+" is covered by the assigns clause", nil)
}

func (vc *VC) unop(st *State, x *ssa.UnOp) {
	switch x.Op {
	case token.MUL: // load
		a := vc.addrOf(st, x.X)
		if a == nil {
			vc.setFresh(st, x, "load")
			return
		}
		if a.Kind == "obj" && !a.Sub {
			vc.panicOb(st, "nil", "load(*"+typeName(a.Typ)+")", sx("not", sx("=", a.Ref, "0")))
		}
		t := vc.load(st, a, x.Type())
		vc.vals[x] = vc.define(x.Name(), vc.sortOf(x.Type()), t)
		if a.Kind != "cell" {
			vc.assumeType(st, vc.vals[x], x.Type())
		}
	case token.NOT:
		vc.setVal(x, smtNot(vc.val(st, x.X)))
	case token.SUB:
		v := vc.val(st, x.X)
		if isFloatType(x.Type()) {
			if vc.spec.FloatFP {
				vc.setVal(x, sx("fp.neg", v))
			} else {
				vc.setVal(x, sx("-", v))
			}
			return
		}
		vc.setVal(x, wrapLinear(sx("-", v), x.Type()))
	case token.XOR:
		vc.setFresh(st, x, "bitnot")
	case token.ARROW:
		vc.unsupp["channel receive"] = true
		vc.setFresh(st, x, "recv")
		vc.havocAll(st, "channel receive")
	default:
		vc.setFresh(st, x, "unop")
	}
}

func (vc *VC) binop(st *State, x *ssa.BinOp) {
	l, r := vc.val(st, x.X), vc.val(st, x.Y)
	ty := x.X.Type()
	switch {
	case isIntType(ty) && x.Op != token.SHL && x.Op != token.SHR:
		vc.intBinop(st, x, l, r)
	case isFloatType(ty):
		vc.floatBinop(st, x, l, r)
	case isStringType(ty):
		switch x.Op {
		case token.ADD:
			vc.setVal(x, sx("str_concat", l, r))
			vc.assume(st, sx("=", sx("str_len", vc.vals[x]), sx("+", sx("str_len", l), sx("str_len", r))))
		case token.EQL:
			vc.setVal(x, sx("=", l, r))
		case token.NEQ:
			vc.setVal(x, sx("not", sx("=", l, r)))
		case token.LSS:
			vc.setVal(x, sx("str_lt", l, r))
		case token.GTR:
			vc.setVal(x, sx("str_lt", r, l))
		case token.LEQ:
			vc.setVal(x, sx("not", sx("str_lt", r, l)))
		case token.GEQ:
			vc.setVal(x, sx("not", sx("str_lt", l, r)))
		default:
			vc.setFresh(st, x, "strop")
		}
	case isBoolType(ty):
		switch x.Op {
		case token.EQL:
			vc.setVal(x, sx("=", l, r))
		case token.NEQ:
			vc.setVal(x, sx("not", sx("=", l, r)))
		case token.AND, token.LAND:
			vc.setVal(x, smtAnd(l, r))
		case token.OR, token.LOR:
			vc.setVal(x, smtOr(l, r))
		default:
			vc.setFresh(st, x, "boolop")
		}
	default:
		// references, interfaces, shifts
		switch x.Op {
		case token.EQL:
			if isStructLike(ty) {
				vc.setFresh(st, x, "structeq")
				return
			}
			vc.setVal(x, sx("=", l, r))
		case token.NEQ:
			if isStructLike(ty) {
				vc.setFresh(st, x, "structeq")
				return
			}
			vc.setVal(x, sx("not", sx("=", l, r)))
		default:
			vc.setFresh(st, x, "op")
		}
	}
}

func (vc *VC) intBinop(st *State, x *ssa.BinOp, l, r string) {
	ty := x.Type()
	switch x.Op {
	case token.ADD:
		vc.setVal(x, wrapLinear(sx("+", l, r), ty))
	case token.SUB:
		vc.setVal(x, wrapLinear(sx("-", l, r), ty))
	case token.MUL:
		// exact product reduced modulo 2^n with a fresh multiplier
		b := basicOf(ty)
		_, _, mod, _ := intRange(b)
		if isLiteral(l) || isLiteral(r) {
			vc.setVal(x, wrapMod(sx("*", l, r), ty))
			return
		}
		k := vc.declare("mulk", "Int")
		res := vc.define(x.Name(), "Int", sx("-", sx("*", l, r), sx("*", smtInt(mod), k)))
		vc.assert(inRange(res, ty))
		vc.vals[x] = res
	case token.QUO:
		vc.panicOb(st, "div", "quo", sx("not", sx("=", r, "0")))
		vc.setVal(x, wrapLinear(sx("tdiv", l, r), ty))
	case token.REM:
		vc.panicOb(st, "div", "rem", sx("not", sx("=", r, "0")))
		b := basicOf(ty)
		if lo, _, _, _ := intRange(b); lo.Sign() == 0 {
			vc.setVal(x, sx("mod", l, r))
		} else {
			vc.setVal(x, sx("tmod", l, r))
		}
	case token.EQL:
		vc.setVal(x, sx("=", l, r))
	case token.NEQ:
		vc.setVal(x, sx("not", sx("=", l, r)))
	case token.LSS:
		vc.setVal(x, sx("<", l, r))
	case token.LEQ:
		vc.setVal(x, sx("<=", l, r))
	case token.GTR:
		vc.setVal(x, sx(">", l, r))
	case token.GEQ:
		vc.setVal(x, sx(">=", l, r))
	default:
		// bit operations: uninterpreted but deterministic
		t := vc.define(x.Name(), "Int", sx("bitop", fmt.Sprint(int(x.Op)), l, r))
		vc.assert(inRange(t, ty))
		vc.vals[x] = t
	}
}

func isLiteral(s string) bool {
	if s == "" {
		return false
	}
	if strings.HasPrefix(s, "(- ") {
		s = strings.TrimSuffix(s[3:], ")")
	}
	for _, c := range s {
		if c < '0' || c > '9' {
			return false
		}
	}
	return true
}

// wrapMod reduces an arbitrary integer into the range of t (linear in x because the modulus is constant).
func wrapMod(x string, t types.Type) string {
	b := basicOf(t)
	lo, _, mod, ok := intRange(b)
	if !ok {
		return x
	}
	if lo.Sign() == 0 {
		return sx("mod", x, smtInt(mod))
	}
	return sx("+", sx("mod", sx("-", x, smtInt(lo)), smtInt(mod)), smtInt(lo))
}

func (vc *VC) floatBinop(st *State, x *ssa.BinOp, l, r string) {
	if vc.spec.FloatFP {
		op := map[token.Token]string{token.ADD: "fp.add RNE", token.SUB: "fp.sub RNE", token.MUL: "fp.mul RNE", token.QUO: "fp.div RNE"}
		cmp := map[token.Token]string{token.EQL: "fp.eq", token.LSS: "fp.lt", token.LEQ: "fp.leq", token.GTR: "fp.gt", token.GEQ: "fp.geq"}
		if o, ok := op[x.Op]; ok {
			vc.setVal(x, sx(o, l, r))
		} else if c, ok := cmp[x.Op]; ok {
			vc.setVal(x, sx(c, l, r))
		} else if x.Op == token.NEQ {
			vc.setVal(x, sx("not", sx("fp.eq", l, r)))
		} else {
			vc.setFresh(st, x, "fop")
		}
		return
	}
	vc.assumedUse["floats outside fp-mode functions are non-NaN reals with uninterpreted arithmetic"] = true
	switch x.Op {
	case token.ADD:
		vc.setVal(x, sx("f_add", l, r))
	case token.SUB:
		vc.setVal(x, sx("f_sub", l, r))
	case token.MUL:
		vc.setVal(x, sx("f_mul", l, r))
	case token.QUO:
		vc.setVal(x, sx("f_div", l, r))
	case token.EQL:
		vc.setVal(x, sx("=", l, r))
	case token.NEQ:
		vc.setVal(x, sx("not", sx("=", l, r)))
	case token.LSS:
		vc.setVal(x, sx("<", l, r))
	case token.LEQ:
		vc.setVal(x, sx("<=", l, r))
	case token.GTR:
		vc.setVal(x, sx(">", l, r))
	case token.GEQ:
		vc.setVal(x, sx(">=", l, r))
	default:
		vc.setFresh(st, x, "fop")
	}
}

func (vc *VC) convert(st *State, x *ssa.Convert) {
	from, to := x.X.Type(), x.Type()
	v := vc.val(st, x.X)
	switch {
	case isIntType(from) && isIntType(to):
		fl, fh, _, _ := intRange(basicOf(from))
		tl, th, _, _ := intRange(basicOf(to))
		if fl != nil && tl != nil && fl.Cmp(tl) >= 0 && fh.Cmp(th) <= 0 {
			vc.vals[x] = v
		} else {
			vc.setVal(x, wrapMod(v, to))
		}
	case isIntType(from) && isFloatType(to):
		if vc.spec.FloatFP {
			vc.setVal(x, sx("(_ to_fp 11 53) RNE", v))
		} else {
			vc.setVal(x, sx("i2f", v))
		}
	case isFloatType(from) && isIntType(to):
		if vc.spec.FloatFP {
			lo, hi, _, _ := intRange(basicOf(to))
			// Go leaves out-of-range float->int conversions implementation defined: being in range is an obligation
			tr := sx("fp.roundToIntegral RTZ", v)
			inr := sx("and", sx("not", sx("fp.isNaN", v)), sx("not", sx("fp.isInfinite", v)),
				sx("fp.leq", fpLiteralBig(lo), tr), sx("fp.leq", tr, fpLiteralBig(hi)))
			vc.convOrd++
			vc.oblige(st, fmt.Sprintf("conv.range#%d", vc.convOrd), "conv.range", inr, "float to integer conversion operand is finite and in range", nil)
			res := vc.declare(x.Name()+"_f2i", "Int")
			vc.assume(st, sx("=", sx("(_ to_fp 11 53) RNE", res), tr))
			vc.assume(st, inRange(res, to))
			vc.vals[x] = res
		} else {
			t := vc.define(x.Name(), "Int", sx("f2i", v))
			vc.assert(inRange(t, to))
			vc.vals[x] = t
		}
	case isFloatType(from) && isFloatType(to):
		vc.vals[x] = v
	case isStringType(from) && isStringType(to):
		vc.vals[x] = v
	default:
		vc.setFresh(st, x, "convert")
	}
}

func (vc *VC) phi(st *State, x *ssa.Phi) {
	// value chosen by the incoming edge; edges are identified by the reach of the predecessor's exit
	b := x.Block()
	if li := vc.loops[b]; li != nil {
		// a phi at a loop head carries a value around the back edge: after the cut it is an arbitrary value of its
		// type (constrained only by what the loop invariants say); a slice-range index is at least -1
		t := vc.declare(x.Name()+"_loopphi", vc.sortOf(x.Type()))
		vc.assumeType(st, t, x.Type())
		if x.Comment == "rangeindex" {
			vc.assume(st, sx(">=", t, "(- 1)"))
		}
		vc.vals[x] = t
		return
	}
	var terms, conds []string
	for i, p := range b.Preds {
		er, ok := vc.edgeReach[[2]int{p.Index, b.Index}]
		if !ok {
			continue
		}
		terms = append(terms, vc.val(st, x.Edges[i]))
		conds = append(conds, er)
	}
	if len(terms) == 0 {
		vc.setFresh(st, x, "phi")
		return
	}
	t := terms[len(terms)-1]
	for i := len(terms) - 2; i >= 0; i-- {
		t = smtIte(conds[i], terms[i], t)
	}
	vc.setVal(x, t)
}

// ---------------------------------------------------------------- maps

func (vc *VC) mapArrays(st *State, mt *types.Map) (dom, val, ds, vs string) {
	d, v, ks, es := vc.mapComps(mt)
	ds, vs = "(Array Int (Array "+ks+" Bool))", "(Array Int (Array "+ks+" "+es+"))"
	return vc.heapGet(st, d, ds), vc.heapGet(st, v, vs), ds, vs
}

func (vc *VC) lookup(st *State, x *ssa.Lookup) {
	mt, ok := x.X.Type().Underlying().(*types.Map)
	if !ok { // string index
		vc.setFresh(st, x, "strindex")
		return
	}
	m, k := vc.val(st, x.X), vc.val(st, x.Index)
	dom, val, _, _ := vc.mapArrays(st, mt)
	in := vc.define(x.Name()+"_in", "Bool", sx("and", sx("not", sx("=", m, "0")), sx("select", sx("select", dom, m), k)))
	v := vc.define(x.Name()+"_v", vc.sortOf(mt.Elem()), smtIte(in, sx("select", sx("select", val, m), k), vc.zeroOf(mt.Elem())))
	vc.assumeType(st, v, mt.Elem())
	if x.CommaOk {
		vc.tuples[x] = []string{v, in}
	} else {
		vc.vals[x] = v
	}
}

func (vc *VC) mapUpdate(st *State, x *ssa.MapUpdate) {
	mt := x.Map.Type().Underlying().(*types.Map)
	m, k, v := vc.val(st, x.Map), vc.val(st, x.Key), vc.val(st, x.Value)
	vc.panicOb(st, "nilmap", "update("+typeName(mt)+")", sx("not", sx("=", m, "0")))
	vc.mapWrite(st, mt, m, k, v, true)
}

func (vc *VC) mapWrite(st *State, mt *types.Map, m, k, v string, insert bool) {
	d, vl, ks, es := vc.mapComps(mt)
	ds, vs := "(Array Int (Array "+ks+" Bool))", "(Array Int (Array "+ks+" "+es+"))"
	dom, val := vc.heapGet(st, d, ds), vc.heapGet(st, vl, vs)
	vc.writeCheck(st, d, m)
	// inserting a new key into a map that is being ranged over is not modelled: make it an obligation
	if insert {
		for it, _ := range st.iters {
			ri := vc.ranges[it]
			if ri == nil || !ri.isMap || !vc.inLoopOf(it) {
				continue
			}
			if !types.Identical(ri.mapType, mt) {
				continue
			}
			vc.noInsOrd++
			vc.oblige(st, fmt.Sprintf("range.noinsert#%d", vc.noInsOrd), "range.noinsert",
				sx("=>", sx("=", m, ri.mapTerm), sx("select", sx("select", dom, m), k)),
				"no new key is inserted into a map while it is being ranged over", nil)
		}
	}
	card := vc.cardFun(ks)
	oldDomM := sx("select", dom, m)
	if insert {
		newDomM := sx("store", oldDomM, k, "true")
		vc.heapSet(st, d, ds, sx("store", dom, m, newDomM))
		vc.heapSet(st, vl, vs, sx("store", val, m, sx("store", sx("select", val, m), k, v)))
		vc.assume(st, sx("=", sx(card, newDomM), smtIte(sx("select", oldDomM, k), sx(card, oldDomM), sx("+", sx(card, oldDomM), "1"))))
	} else {
		newDomM := sx("store", oldDomM, k, "false")
		// delete on a nil map is a no-op
		vc.heapSet(st, d, ds, smtIte(sx("=", m, "0"), dom, sx("store", dom, m, newDomM)))
		vc.assume(st, sx("=", sx(card, newDomM), smtIte(sx("select", oldDomM, k), sx("-", sx(card, oldDomM), "1"), sx(card, oldDomM))))
	}
}

func (vc *VC) inLoopOf(it ssa.Value) bool {
	for _, li := range vc.loops {
		if !li.body[vc.curBlock] {
			continue
		}
		for _, ins := range li.head.Instrs {
			if nx, ok := ins.(*ssa.Next); ok && nx.Iter == it {
				return true
			}
		}
	}
	return false
}

func (vc *VC) rangeStart(st *State, x *ssa.Range) {
	mt, ok := x.X.Type().Underlying().(*types.Map)
	if !ok {
		vc.ranges[x] = &rangeInfo{isMap: false, instr: x}
		vc.vals[x] = "0"
		return
	}
	m := vc.val(st, x.X)
	vc.ranges[x] = &rangeInfo{mapTerm: m, mapType: mt, isMap: true, instr: x}
	ks := vc.sortOf(mt.Key())
	st.iters[x] = "((as const (Array " + ks + " Bool)) false)"
	vc.vals[x] = "0"
}

func (vc *VC) next(st *State, x *ssa.Next) {
	ri := vc.ranges[x.Iter]
	if ri == nil || !ri.isMap {
		vc.setFresh(st, x, "next")
		return
	}
	mt := ri.mapType
	dom, val, _, _ := vc.mapArrays(st, mt)
	ks, es := vc.sortOf(mt.Key()), vc.sortOf(mt.Elem())
	seen, okSeen := st.iters[x.Iter]
	if !okSeen {
		vc.setFresh(st, x, "next")
		return
	}
	seen = vc.patSafe(seen, "(Array "+ks+" Bool)")
	ok := vc.declare(x.Name()+"_ok", "Bool")
	k := vc.declare(x.Name()+"_k", ks)
	v := vc.declare(x.Name()+"_v", es)
	m := ri.mapTerm
	in := func(key string) string {
		return sx("and", sx("not", sx("=", m, "0")), sx("select", sx("select", dom, m), key))
	}
	vc.assume(st, sx("=>", ok, sx("and", in(k), sx("not", sx("select", seen, k)), sx("=", v, sx("select", sx("select", val, m), k)))))
	q := vc.fresh("qk")
	vc.assume(st, sx("=>", sx("not", ok), fmt.Sprintf("(forall ((%s %s)) (! (=> %s (select %s %s)) :pattern ((select %s %s))))", q, ks, in(q), seen, q, seen, q)))
	vc.assumeType(st, v, mt.Elem())
	vc.assumeType(st, k, mt.Key())
	st.iters[x.Iter] = vc.define("seen", "(Array "+ks+" Bool)", smtIte(ok, sx("store", seen, k, "true"), seen))
	vc.tuples[x] = []string{ok, k, v}
}

// ---------------------------------------------------------------- slices

func (vc *VC) indexAddr(st *State, x *ssa.IndexAddr) {
	idx := vc.val(st, x.Index)
	switch u := x.X.Type().Underlying().(type) {
	case *types.Slice:
		s := vc.val(st, x.X)
		vc.panicOb(st, "index", "slice("+typeName(u.Elem())+")", sx("and", sx("<=", "0", idx), sx("<", idx, sx("slen", s))))
		comp, es := vc.elemComp(u.Elem())
		if isStructLike(u.Elem()) {
			// slice of struct values: each element is a sub-object of the backing array
			f := vc.declareFun("elemobj_"+typeName(u.Elem()), []string{"Int", "Int"}, "Int")
			r := sx(f, sx("sbase", s), sx("+", sx("soff", s), idx))
			vc.addrs[x] = &Addr{Kind: "obj", Ref: r, Typ: u.Elem(), Sub: true}
			vc.vals[x] = r
			return
		}
		vc.addrs[x] = &Addr{Kind: "elem", Comp: comp, Sort: es, Ref: sx("sbase", s), Idx: sx("+", sx("soff", s), idx), Typ: u.Elem()}
		vc.vals[x] = "0"
	case *types.Pointer:
		arr := u.Elem().Underlying().(*types.Array)
		base := vc.val(st, x.X)
		if a, ok := vc.addrs[x.X]; ok && a.Kind == "obj" {
			base = a.Ref
		}
		vc.panicOb(st, "index", "array("+typeName(arr.Elem())+")", sx("and", sx("<=", "0", idx), sx("<", idx, fmt.Sprint(arr.Len()))))
		comp, es := vc.elemComp(arr.Elem())
		if isStructLike(arr.Elem()) {
			f := vc.declareFun("elemobj_"+typeName(arr.Elem()), []string{"Int", "Int"}, "Int")
			r := sx(f, base, idx)
			vc.addrs[x] = &Addr{Kind: "obj", Ref: r, Typ: arr.Elem(), Sub: true}
			vc.vals[x] = r
			return
		}
		vc.addrs[x] = &Addr{Kind: "elem", Comp: comp, Sort: es, Ref: base, Idx: idx, Typ: arr.Elem()}
		vc.vals[x] = "0"
	default:
		vc.setFresh(st, x, "indexaddr")
	}
}

func (vc *VC) newSlice(st *State, hint, base, off, ln, cp string) string {
	s := vc.declare(hint, "Int")
	vc.assume(st, sx("and", sx("not", sx("=", s, "0")), sx("=", sx("sbase", s), base), sx("=", sx("soff", s), off),
		sx("=", sx("slen", s), ln), sx("=", sx("scap", s), cp)))
	return s
}

func (vc *VC) makeSlice(st *State, x *ssa.MakeSlice) {
	sl := x.Type().Underlying().(*types.Slice)
	ln, cp := vc.val(st, x.Len), vc.val(st, x.Cap)
	vc.panicOb(st, "index", "makeslice", sx("and", sx("<=", "0", ln), sx("<=", ln, cp)))
	r := vc.newRef(st, "backing")
	comp, es := vc.elemComp(sl.Elem())
	sortC := "(Array Int (Array Int " + es + "))"
	vc.heapSet(st, comp, sortC, sx("store", vc.heapGet(st, comp, sortC), r, "((as const (Array Int "+es+")) "+zeroOfSort(es)+")"))
	vc.vals[x] = vc.newSlice(st, x.Name()+"_mk", r, "0", ln, cp)
}

func (vc *VC) sliceOp(st *State, x *ssa.Slice) {
	var base, off, ln, cp string
	src := vc.val(st, x.X)
	switch u := x.X.Type().Underlying().(type) {
	case *types.Slice:
		base, off, ln, cp = sx("sbase", src), sx("soff", src), sx("slen", src), sx("scap", src)
	case *types.Pointer:
		arr := u.Elem().Underlying().(*types.Array)
		if a, ok := vc.addrs[x.X]; ok && a.Kind == "obj" {
			src = a.Ref
		}
		base, off, ln, cp = src, "0", fmt.Sprint(arr.Len()), fmt.Sprint(arr.Len())
	default: // string slicing
		vc.setFresh(st, x, "substr")
		return
	}
	lo, hi := "0", ln
	if x.Low != nil {
		lo = vc.val(st, x.Low)
	}
	if x.High != nil {
		hi = vc.val(st, x.High)
	}
	mx := cp
	if x.Max != nil {
		mx = vc.val(st, x.Max)
	}
	vc.panicOb(st, "index", "slice-expr", sx("and", sx("<=", "0", lo), sx("<=", lo, hi), sx("<=", hi, mx), sx("<=", mx, cp)))
	s := vc.newSlice(st, x.Name()+"_sl", base, sx("+", off, lo), sx("-", hi, lo), sx("-", mx, lo))
	vc.vals[x] = s
}

// ---------------------------------------------------------------- interfaces

func (vc *VC) typeTag(t types.Type) string {
	return vc.declareNamed("tag_"+sanitize(typeName(t)), "Int")
}

func (vc *VC) makeInterface(st *State, x *ssa.MakeInterface) {
	v := vc.val(st, x.X)
	if _, ok := x.X.Type().Underlying().(*types.Pointer); ok {
		// pointer boxed in an interface: same ref; nil pointer in interface is a non-nil interface, which we do not distinguish
		vc.vals[x] = v
		vc.note("typed nil pointers inside interfaces are identified with nil interfaces")
		return
	}
	r := vc.newRef(st, "box")
	f := vc.declareFun("unbox_"+sanitize(vc.sortOf(x.X.Type())), []string{"Int"}, vc.sortOf(x.X.Type()))
	vc.assume(st, sx("=", sx(f, r), v))
	vc.assume(st, sx("=", sx("dyntype", r), vc.typeTag(x.X.Type())))
	vc.vals[x] = r
}

func (vc *VC) typeAssert(st *State, x *ssa.TypeAssert) {
	v := vc.val(st, x.X)
	var res string
	ok := vc.declare(x.Name()+"_ok", "Bool")
	if _, isPtr := x.AssertedType.Underlying().(*types.Pointer); isPtr {
		res = smtIte(ok, v, "0")
	} else if _, isIface := x.AssertedType.Underlying().(*types.Interface); isIface {
		res = smtIte(ok, v, "0")
	} else {
		f := vc.declareFun("unbox_"+sanitize(vc.sortOf(x.AssertedType)), []string{"Int"}, vc.sortOf(x.AssertedType))
		vc.assume(st, sx("=", ok, sx("and", sx("not", sx("=", v, "0")), sx("=", sx("dyntype", v), vc.typeTag(x.AssertedType)))))
		if isStructLike(x.AssertedType) {
			// the boxed struct value is a snapshot that already exists: it is not one of the objects allocated later
			vc.assume(st, sx("and", sx("<=", "0", sx(f, v)), sx("<=", sx(f, v), vc.allocBase)))
		}
		res = smtIte(ok, sx(f, v), vc.zeroOf(x.AssertedType))
	}
	vc.assume(st, sx("=>", ok, sx("not", sx("=", v, "0"))))
	if x.CommaOk {
		r := vc.define(x.Name()+"_v", vc.sortOf(x.AssertedType), res)
		vc.tuples[x] = []string{r, ok}
		return
	}
	vc.panicOb(st, "assert", "type("+typeName(x.AssertedType)+")", ok)
	vc.setVal(x, res)
}

// lemmaInstance compiles hyps ==> concls of a declared lemma with its variables bound to the given arguments.
// The lemma itself is a separate obligation (generateLemmas).
func (vc *VC) lemmaInstance(env *Env, call *ECall) (string, error) {
	var lm *Lemma
	for _, l := range vc.cs.Lemmas {
		if l.Name == call.Fun || strings.HasSuffix(l.Name, "."+call.Fun) {
			lm = l
		}
	}
	if lm == nil {
		return "", fmt.Errorf("unknown lemma %s", call.Fun)
	}
	if len(call.Args) != len(lm.Vars) {
		return "", fmt.Errorf("lemma %s takes %d arguments", lm.Name, len(lm.Vars))
	}
	n := env
	for i, v := range lm.Vars {
		a, err := env.compileVal(call.Args[i])
		if err != nil {
			return "", err
		}
		n = n.with(v.Name, Val{T: a.T, S: a.S})
	}
	var hyps, concls []string
	for _, h := range lm.Hyps {
		t, err := n.compileBool(h.E)
		if err != nil {
			return "", err
		}
		hyps = append(hyps, t)
	}
	for _, c := range lm.Concl {
		t, err := n.compileBool(c.E)
		if err != nil {
			return "", err
		}
		concls = append(concls, t)
	}
	vc.assumedUse["lemma "+lm.Name+" (proved as its own obligation)"] = true
	return smtImp(smtAnd(hyps...), smtAnd(concls...)), nil
}

// lemmaObligations generates the standalone proof obligations of a lemma.
func lemmaObligations(w *World, cs *Contracts, lm *Lemma) ([]*Obligation, error) {
	vc := newVC(w, cs, nil, nil, &FuncSpec{Key: lm.Name, Props: lm.Props, Modes: map[string]string{}})
	vc.key = lm.Name
	st := &State{reach: "true", heap: map[string]string{}, cells: map[*ssa.Alloc]string{}, iters: map[ssa.Value]string{}}
	st.allocTop = vc.declareNamed("allocTop@0", "Int")
	vc.allocBase = st.allocTop
	var pkg *types.Package
	for path, sp := range w.SSAPkgs {
		if strings.HasPrefix(path, modulePath) && sp.Pkg.Name() == strings.SplitN(lm.Name, ".", 2)[0] {
			pkg = sp.Pkg
		}
	}
	env := &Env{vc: vc, st: st, old: st, vars: map[string]Val{}, pkg: pkg}
	for _, v := range lm.Vars {
		_, s := env.lookupType(v.Type)
		env.vars[v.Name] = Val{T: vc.declareNamed("l_"+v.Name, s), S: s}
	}
	for _, h := range lm.Hyps {
		t, err := env.compileBool(h.E)
		if err != nil {
			return nil, err
		}
		vc.assert(t)
	}
	for _, c := range lm.Concl {
		t, err := env.compileBool(c.E)
		if err != nil {
			return nil, err
		}
		vc.oblige(st, fmt.Sprintf("concl#%d", c.N), "lemma", t, c.Text, lm.Props)
	}
	for _, ob := range vc.obls {
		ob.Cmds = vc.cmds[:ob.Pos]
	}
	return vc.obls, nil
}

// sourceOrdinals numbers the static calls of each callee in source order (anchors must not depend on block order).
func (vc *VC) sourceOrdinals() {
	vc.srcOrd = map[*ssa.CallCommon]int{}
	by := map[string][]*ssa.CallCommon{}
	pos := map[*ssa.CallCommon]token.Pos{}
	for _, b := range vc.fn.Blocks {
		for _, ins := range b.Instrs {
			ci, ok := ins.(ssa.CallInstruction)
			if !ok {
				continue
			}
			c := ci.Common()
			callee := c.StaticCallee()
			k := ""
			if b, isB := c.Value.(*ssa.Builtin); isB && b.Name() == "append" && len(c.Args) > 0 {
				if an := appendAnchor(c.Args[0]); an != "" {
					k = "append:" + an
				}
			}
			if callee == nil && k == "" {
				continue
			}
			if k == "" {
				k = funcKey(callee)
			}
			by[k] = append(by[k], c)
			pos[c] = ins.Pos()
		}
	}
	// field address computations, numbered per field in source order
	vc.faOrd = map[*ssa.FieldAddr]int{}
	fas := map[string][]*ssa.FieldAddr{}
	for _, b := range vc.fn.Blocks {
		for _, ins := range b.Instrs {
			if fa, ok := ins.(*ssa.FieldAddr); ok {
				if _, isStruct := fa.X.Type().Underlying().(*types.Pointer); isStruct {
					n := fieldName(fa.X.Type(), fa.Field)
					fas[n] = append(fas[n], fa)
				}
			}
		}
	}
	for _, l := range fas {
		sort.SliceStable(l, func(i, j int) bool { return l[i].Pos() < l[j].Pos() })
		for i, fa := range l {
			vc.faOrd[fa] = i + 1
		}
	}
	for _, cs := range by {
		sort.SliceStable(cs, func(i, j int) bool { return pos[cs[i]] < pos[cs[j]] })
		for i, c := range cs {
			vc.srcOrd[c] = i + 1
		}
	}
}
