package main

import (
	"fmt"
	"strings"
	"unicode"
)

// ---------------------------------------------------------------- contract expression AST

type Expr interface{ String() string }

type (
	EIdent struct{ Name string }
	EInt   struct{ Val string }
	EStr   struct{ Val string }
	EBool  struct{ Val bool }
	ENil   struct{}
	ESel   struct {
		X   Expr
		Sel string
	}
	EIndex struct{ X, I Expr }
	ECall  struct {
		Fun  string
		Args []Expr
	}
	EUn struct {
		Op string
		X  Expr
	}
	EBin struct {
		Op   string
		L, R Expr
	}
	ECond  struct{ C, A, B Expr }
	EQuant struct {
		Forall bool
		Vars   []QVar
		Body   Expr
	}
	ELet struct {
		Name string
		Val  Expr
		Body Expr
	}
)

type QVar struct{ Name, Type string }

func (e *EIdent) String() string { return e.Name }
func (e *EInt) String() string   { return e.Val }
func (e *EStr) String() string   { return fmt.Sprintf("%q", e.Val) }
func (e *EBool) String() string  { return fmt.Sprint(e.Val) }
func (e *ENil) String() string   { return "nil" }
func (e *ESel) String() string   { return e.X.String() + "." + e.Sel }
func (e *EIndex) String() string { return e.X.String() + "[" + e.I.String() + "]" }
func (e *ECall) String() string {
	var a []string
	for _, x := range e.Args {
		a = append(a, x.String())
	}
	return e.Fun + "(" + strings.Join(a, ", ") + ")"
}
func (e *EUn) String() string  { return e.Op + e.X.String() }
func (e *EBin) String() string { return "(" + e.L.String() + " " + e.Op + " " + e.R.String() + ")" }
func (e *ECond) String() string {
	return "(" + e.C.String() + " ? " + e.A.String() + " : " + e.B.String() + ")"
}
func (e *EQuant) String() string {
	q := "exists"
	if e.Forall {
		q = "forall"
	}
	var vs []string
	for _, v := range e.Vars {
		vs = append(vs, v.Name+" "+v.Type)
	}
	return "(" + q + " " + strings.Join(vs, ", ") + " :: " + e.Body.String() + ")"
}
func (e *ELet) String() string {
	return "(let " + e.Name + " = " + e.Val.String() + " in " + e.Body.String() + ")"
}

// ---------------------------------------------------------------- tokenizer

type tok struct {
	kind string // ident int str op eof
	val  string
}

func tokenize(s string) ([]tok, error) {
	var out []tok
	i := 0
	r := []rune(s)
	for i < len(r) {
		c := r[i]
		switch {
		case unicode.IsSpace(c):
			i++
		case unicode.IsLetter(c) || c == '_':
			j := i
			for j < len(r) && (unicode.IsLetter(r[j]) || unicode.IsDigit(r[j]) || r[j] == '_' || r[j] == '$') {
				j++
			}
			out = append(out, tok{"ident", string(r[i:j])})
			i = j
		case unicode.IsDigit(c):
			j := i
			for j < len(r) && (unicode.IsDigit(r[j]) || r[j] == '_') {
				j++
			}
			out = append(out, tok{"int", strings.ReplaceAll(string(r[i:j]), "_", "")})
			i = j
		case c == '"':
			j := i + 1
			var sb strings.Builder
			for j < len(r) && r[j] != '"' {
				if r[j] == '\\' && j+1 < len(r) {
					j++
				}
				sb.WriteRune(r[j])
				j++
			}
			if j >= len(r) {
				return nil, fmt.Errorf("unterminated string in %q", s)
			}
			out = append(out, tok{"str", sb.String()})
			i = j + 1
		default:
			ops := []string{"<==>", "==>", "::", "==", "!=", "<=", ">=", "&&", "||", "[*]", ".*"}
			matched := false
			for _, op := range ops {
				if strings.HasPrefix(string(r[i:min(len(r), i+len(op))]), op) {
					out = append(out, tok{"op", op})
					i += len(op)
					matched = true
					break
				}
			}
			if matched {
				break
			}
			if strings.ContainsRune("+-*/%<>!()[],.?:=", c) {
				out = append(out, tok{"op", string(c)})
				i++
				break
			}
			return nil, fmt.Errorf("bad character %q in %q", c, s)
		}
	}
	out = append(out, tok{"eof", ""})
	return out, nil
}

// ---------------------------------------------------------------- parser

type parser struct {
	toks []tok
	pos  int
	src  string
}

func parseExpr(s string) (e Expr, err error) {
	toks, err := tokenize(s)
	if err != nil {
		return nil, err
	}
	p := &parser{toks: toks, src: s}
	defer func() {
		if r := recover(); r != nil {
			if pe, ok := r.(parseErr); ok {
				err = fmt.Errorf("%s in %q", string(pe), s)
				return
			}
			panic(r)
		}
	}()
	e = p.expr(0)
	if p.peek().kind != "eof" {
		p.fail("unexpected %q", p.peek().val)
	}
	return e, nil
}

type parseErr string

func (p *parser) fail(f string, a ...any) { panic(parseErr(fmt.Sprintf(f, a...))) }
func (p *parser) peek() tok               { return p.toks[p.pos] }
func (p *parser) next() tok               { t := p.toks[p.pos]; p.pos++; return t }
func (p *parser) isOp(v string) bool      { t := p.peek(); return t.kind == "op" && t.val == v }
func (p *parser) expectOp(v string) {
	if !p.isOp(v) {
		p.fail("expected %q, got %q", v, p.peek().val)
	}
	p.pos++
}

var binPrec = map[string]int{
	"<==>": 1, "==>": 2, "||": 4, "&&": 5,
	"==": 6, "!=": 6, "<": 6, "<=": 6, ">": 6, ">=": 6, "in": 6,
	"+": 7, "-": 7, "*": 8, "/": 8, "%": 8,
}

func (p *parser) expr(minPrec int) Expr {
	lhs := p.unary()
	for {
		t := p.peek()
		op := t.val
		if t.kind == "ident" && t.val == "in" {
			op = "in"
		} else if t.kind != "op" {
			break
		}
		if op == "?" && minPrec <= 3 {
			p.next()
			a := p.expr(0)
			p.expectOp(":")
			b := p.expr(3)
			lhs = &ECond{lhs, a, b}
			continue
		}
		prec, ok := binPrec[op]
		if !ok || prec < minPrec {
			break
		}
		p.next()
		var rhs Expr
		if op == "==>" || op == "<==>" { // right assoc
			rhs = p.expr(prec)
		} else {
			rhs = p.expr(prec + 1)
		}
		lhs = &EBin{op, lhs, rhs}
	}
	return lhs
}

func (p *parser) unary() Expr {
	if p.isOp("!") {
		p.next()
		return &EUn{"!", p.unary()}
	}
	if p.isOp("-") {
		p.next()
		return &EUn{"-", p.unary()}
	}
	return p.postfix(p.primary())
}

func (p *parser) postfix(e Expr) Expr {
	for {
		switch {
		case p.isOp("."):
			p.next()
			t := p.next()
			if t.kind != "ident" {
				p.fail("expected field name after '.'")
			}
			e = &ESel{e, t.val}
		case p.isOp("["):
			p.next()
			i := p.expr(0)
			p.expectOp("]")
			e = &EIndex{e, i}
		default:
			return e
		}
	}
}

func (p *parser) primary() Expr {
	t := p.next()
	switch t.kind {
	case "int":
		return &EInt{t.val}
	case "str":
		return &EStr{t.val}
	case "ident":
		switch t.val {
		case "true":
			return &EBool{true}
		case "false":
			return &EBool{false}
		case "nil":
			return &ENil{}
		case "forall", "exists":
			var vars []QVar
			for {
				n := p.next()
				if n.kind != "ident" {
					p.fail("expected bound variable name")
				}
				ty := ""
				if p.isOp("*") {
					p.next()
					ty = "*"
				}
				tt := p.next()
				if tt.kind != "ident" {
					p.fail("expected type of bound variable %s", n.val)
				}
				ty += tt.val
				if p.isOp(".") { // pkg.Type
					p.next()
					ty += "." + p.next().val
				}
				vars = append(vars, QVar{n.val, ty})
				if p.isOp(",") {
					p.next()
					continue
				}
				break
			}
			p.expectOp("::")
			body := p.expr(0)
			return &EQuant{t.val == "forall", vars, body}
		case "let":
			n := p.next()
			p.expectOp("=")
			v := p.expr(7) // above the precedence of the membership operator "in"
			in := p.next()
			if in.kind != "ident" || in.val != "in" {
				p.fail("expected 'in' in let")
			}
			return &ELet{n.val, v, p.expr(0)}
		}
		if p.isOp("(") {
			p.next()
			var args []Expr
			for !p.isOp(")") {
				args = append(args, p.expr(0))
				if p.isOp(",") {
					p.next()
				}
			}
			p.expectOp(")")
			return &ECall{t.val, args}
		}
		return &EIdent{t.val}
	case "op":
		if t.val == "(" {
			e := p.expr(0)
			p.expectOp(")")
			return e
		}
	}
	p.fail("unexpected token %q", t.val)
	return nil
}

// ---------------------------------------------------------------- assigns targets

// Target is one entry of an assigns clause.
//
//	x.f      field f of object x
//	x.*      every field of object x
//	m[*]     contents of the map (or slice backing store) m
//	T.f      field f of every object of type T (written `all T.f`)
//	*        anything (unchecked)
type Target struct {
	Kind string // field | allfields | contents | typefield | any
	X    Expr
	Sel  string
	Src  string
}

func parseTargets(s string) ([]Target, error) {
	var out []Target
	for _, part := range splitTop(s, ',') {
		part = strings.TrimSpace(part)
		if part == "" {
			continue
		}
		if part == "*" {
			out = append(out, Target{Kind: "any", Src: part})
			continue
		}
		if part == "nothing" {
			continue
		}
		if strings.HasPrefix(part, "all ") && strings.HasSuffix(part, "[*]") {
			// contents of the map / slice stored in field f of every object of type T
			body := strings.TrimSuffix(strings.TrimSpace(part[4:]), "[*]")
			li := strings.LastIndex(body, ".")
			if li <= 0 {
				return nil, fmt.Errorf("bad type-field-contents target %q", part)
			}
			ts := []string{body[:li], body[li+1:]}
			out = append(out, Target{Kind: "typefieldcontents", X: &EIdent{ts[0]}, Sel: ts[1], Src: part})
			continue
		}
		if strings.HasPrefix(part, "all ") {
			body := strings.TrimSpace(part[4:])
			li := strings.LastIndex(body, ".")
			if li <= 0 {
				return nil, fmt.Errorf("bad type-field target %q", part)
			}
			ts := []string{body[:li], body[li+1:]}
			out = append(out, Target{Kind: "typefield", X: &EIdent{ts[0]}, Sel: ts[1], Src: part})
			continue
		}
		if strings.HasSuffix(part, "[*]") {
			e, err := parseExpr(strings.TrimSuffix(part, "[*]"))
			if err != nil {
				return nil, err
			}
			out = append(out, Target{Kind: "contents", X: e, Src: part})
			continue
		}
		if strings.HasSuffix(part, ".*") {
			e, err := parseExpr(strings.TrimSuffix(part, ".*"))
			if err != nil {
				return nil, err
			}
			out = append(out, Target{Kind: "allfields", X: e, Src: part})
			continue
		}
		e, err := parseExpr(part)
		if err != nil {
			return nil, err
		}
		sel, ok := e.(*ESel)
		if !ok {
			return nil, fmt.Errorf("assigns target %q is not a field, contents or wildcard", part)
		}
		out = append(out, Target{Kind: "field", X: sel.X, Sel: sel.Sel, Src: part})
	}
	return out, nil
}

func splitTop(s string, sep rune) []string {
	var out []string
	depth := 0
	last := 0
	for i, c := range s {
		switch c {
		case '(', '[':
			depth++
		case ')', ']':
			depth--
		case sep:
			if depth == 0 {
				out = append(out, s[last:i])
				last = i + 1
			}
		}
	}
	return append(out, s[last:])
}
