package main

func replayFromModel(w *World, cs *Contracts, ob *Obligation, dir string) (string, bool) {
	return "", false
}
