package main

import (
	"encoding/json"
	"fmt"
	"os"
	"os/exec"
	"path/filepath"
	"strings"
)

// KnownFinding is one genuine defect recorded instead of repaired (DESIGN 5.3).
type KnownFinding struct {
	Property   string `json:"property"`
	Obligation string `json:"obligation"`            // exact name, or prefix ending in '*'
	ExcludeSMT string `json:"exclude_smt,omitempty"` // hypothesis under which the obligation must discharge; empty: the whole obligation is the finding
	What       string `json:"what"`
	Replay     string `json:"replay,omitempty"` // replay test (relative to /verif) that demonstrates it on the real code
}

type KnownFindings struct {
	Findings []KnownFinding `json:"findings"`
	Fixed    []string       `json:"fixed"`
}

func loadKnownFindings() *KnownFindings {
	kf := &KnownFindings{}
	data, err := os.ReadFile(filepath.Join(verifDir, "known_findings.json"))
	if err != nil {
		return kf
	}
	if err := json.Unmarshal(data, kf); err != nil {
		fmt.Fprintln(os.Stderr, "govc: known_findings.json:", err)
	}
	return kf
}

func (kf *KnownFindings) match(prop, obl string) []KnownFinding {
	var out []KnownFinding
	for _, f := range kf.Findings {
		if f.Property != prop {
			continue
		}
		if f.Obligation == obl || (strings.HasSuffix(f.Obligation, "*") && strings.HasPrefix(obl, strings.TrimSuffix(f.Obligation, "*"))) {
			out = append(out, f)
		}
	}
	return out
}

func execLook(s string) (string, error) { return exec.LookPath(s) }

// classify turns solver results into discharged / known finding / violation.
func classify(w *World, cs *Contracts, ms *ModSets, obls []*Obligation, kf *KnownFindings, o runOpts, smtDir string) *outcomeT {
	oc := &outcomeT{}
	replayDir := filepath.Join(outDir(), "replay", nonEmpty(o.property, "adhoc"))
	os.RemoveAll(replayDir)
	os.MkdirAll(replayDir, 0o755)
	printedKnown := map[string]bool{}
	for _, ob := range obls {
		r := ob.Result
		if r == nil {
			continue
		}
		if ob.Cover {
			oc.covers++
			if r.Status == "sat" || r.Status == "unknown" || r.Status == "timeout" {
				// unknown on a cover: the precondition was not refuted, good enough (sat is the strong answer)
				oc.coversOK++
				continue
			}
			// unsat: contradictory hypotheses, everything below would be vacuous
			oc.violations++
			p := writeReplayNote(replayDir, ob, "VACUOUS: the hypotheses at this point are contradictory; proofs below it are void")
			oc.lines = append(oc.lines, fmt.Sprintf("VIOLATION property=%s replay=%s no-failing-input-found", o.property, p))
			continue
		}
		oc.total++
		if r.Status == "unsat" {
			oc.discharged++
			continue
		}
		// failed: is it a recorded finding?
		known := false
		for _, f := range kf.match(o.property, ob.Name) {
			if f.ExcludeSMT == "" {
				known = true
			} else {
				ob2 := *ob
				ob2.Cmds = append(append([]string{}, ob.Cmds...), "(assert "+f.ExcludeSMT+")")
				ob2.Name = ob.Name + ".excl"
				r2 := solve(smtDir, &ob2, o.timeoutS, false)
				if r2.Status == "unsat" {
					known = true
				}
			}
			if known && f.Replay != "" {
				// the recorded input must still fail on the real code; if it does not, this failure has another cause
				if _, err := os.Stat(filepath.Join(verifDir, f.Replay)); err == nil {
					if !replayStillFails(f.Replay) {
						known = false
						ob.Result.Output += "\nknown finding " + f.Obligation + " listed, but its recorded replay " + f.Replay + " no longer fails on the real code: this failure has a different cause\n"
					}
				}
			}
			if known {
				oc.known++
				oc.knownObs = append(oc.knownObs, ob.Name)
				key := f.Obligation + "|" + f.What
				if !printedKnown[key] {
					printedKnown[key] = true
					oc.lines = append(oc.lines, fmt.Sprintf("KNOWN-FINDING: property=%s %s %s", o.property, ob.Name, f.What))
				}
				break
			}
		}
		if known {
			// a known finding is neither discharged nor a violation; it does not count towards 'obligations'
			oc.total--
			continue
		}
		oc.violations++
		oc.failed = append(oc.failed, ob)
		path, confirmed := tryReplay(w, cs, ob, replayDir)
		suffix := ""
		if !confirmed {
			suffix = " no-failing-input-found"
		}
		oc.lines = append(oc.lines, fmt.Sprintf("VIOLATION property=%s replay=%s%s", o.property, path, suffix))
		oc.lines = append(oc.lines, fmt.Sprintf("  obligation %s [%s] status=%s at %s: %s", ob.Name, ob.Kind, r.Status, ob.Src, ob.Text))
	}
	return oc
}

func writeReplayNote(dir string, ob *Obligation, msg string) string {
	name := sanitize(ob.Name)
	if len(name) > 150 {
		name = name[:150]
	}
	p := filepath.Join(dir, name+".txt")
	var sb strings.Builder
	sb.WriteString("obligation: " + ob.Name + "\nkind: " + ob.Kind + "\ncontract: " + ob.Text + "\nsource: " + ob.Src + "\n")
	sb.WriteString(msg + "\n")
	if ob.Result != nil {
		sb.WriteString("solver status: " + ob.Result.Status + " (" + strings.Join(ob.Result.Tried, ", ") + ")\n")
		sb.WriteString("query: " + ob.Result.File + "\n")
		sb.WriteString("solver output:\n" + truncate(ob.Result.Output, 20000) + "\n")
	}
	os.WriteFile(p, []byte(sb.String()), 0o644)
	return p
}

var replayCache = map[string]bool{}

// replayStillFails runs a stored replay test against the working tree (exit 1 = REPLAY-CONFIRMED).
func replayStillFails(rel string) bool {
	if v, ok := replayCache[rel]; ok {
		return v
	}
	cmd := exec.Command(filepath.Join(verifDir, "tools", "replay.sh"), filepath.Join(verifDir, rel))
	out, err := cmd.CombinedOutput()
	fails := err != nil && strings.Contains(string(out), "REPLAY-CONFIRMED")
	replayCache[rel] = fails
	return fails
}
