package main

// tryReplay turns the solver's counter-model into a test on the real code when a replay
// generator exists for the function; otherwise it writes the obligation and solver output.
func tryReplay(w *World, cs *Contracts, ob *Obligation, dir string) (path string, confirmed bool) {
	if p, ok := replayFromModel(w, cs, ob, dir); ok {
		return p, true
	} else if p != "" {
		return p, false
	}
	return writeReplayNote(dir, ob, "no replay generator for this obligation; the solver output below is the evidence"), false
}

func replayCmd(args []string) int { return 2 }
