package main

import (
	"flag"
	"fmt"
	"os"
	"os/exec"
	"path/filepath"
	"strings"
)

// tryReplay turns the solver's counter-model into a test on the real code when a replay
// generator exists for the function; otherwise it writes the obligation and solver output.
func tryReplay(w *World, cs *Contracts, ob *Obligation, dir string) (path string, confirmed bool) {
	if p, ok := replayFromModel(w, cs, ob, dir); ok {
		return p, true
	} else if p != "" {
		return p, false
	}
	return writeReplayNote(dir, ob, "no replay generator for this obligation; the solver output below is the evidence"), false
}

// replayCmd re-runs what a VIOLATION line pointed to: a generated or recorded Go replay test is executed against the real
// code (exit 1 and REPLAY-CONFIRMED when the failure is still there); a note file (no failing input) names the
// obligation, which is re-verified alone (exit 1 when it still does not discharge).
func replayCmd(args []string) int {
	fs := flag.NewFlagSet("replay", flag.ExitOnError)
	prop := fs.String("property", "", "property id")
	fs.Parse(args)
	if fs.NArg() != 1 {
		fmt.Fprintln(os.Stderr, "usage: govc replay --property <id> <path>")
		return 2
	}
	path := fs.Arg(0)
	if strings.HasSuffix(path, ".go") {
		cmd := exec.Command(filepath.Join(verifDir, "tools", "replay.sh"), path)
		out, err := cmd.CombinedOutput()
		fmt.Print(string(out))
		if err != nil && strings.Contains(string(out), "REPLAY-CONFIRMED") {
			fmt.Printf("VIOLATION property=%s replay=%s\n", *prop, path)
			return 1
		}
		return 0
	}
	data, err := os.ReadFile(path)
	if err != nil {
		fmt.Fprintln(os.Stderr, err)
		return 2
	}
	name := ""
	for _, l := range strings.Split(string(data), "\n") {
		if strings.HasPrefix(l, "obligation: ") {
			name = strings.TrimSpace(strings.TrimPrefix(l, "obligation: "))
			break
		}
	}
	if name == "" {
		fmt.Fprintln(os.Stderr, "no obligation named in", path)
		return 2
	}
	key := name
	if i := strings.Index(name, ":"); i >= 0 {
		key = name[:i]
	}
	fmt.Printf("re-verifying %s (function %s)\n", name, key)
	return verify(runOpts{property: *prop, tier: "quick", only: key, timeoutS: 20, jobs: 16})
}
