// replay-pkg: pkg/scheduler/objects
// Finding objects.Preemptor.TryPreemption:site@call(resources.Resource.AddTo)#1[counted]: the total used for the final
// shortfall decision also counts victims that were NOT taken into finalVictims. Node {first:10, second:10} is full with
// victim alloc1 {first:10} and victim alloc2 {second:10}; the ask needs {first:10, second:10}. Once alloc1 is taken,
// "ask.StrictlyGreaterThanOnlyExisting(total)" is false (first is covered), so alloc2 is not taken, but its resources
// are still added to the total: the shortfall check passes, only alloc1 is preempted, the node is reserved, the ask is
// marked as having triggered preemption - and "second" is still completely used: the victims taken plus the free
// space of the chosen node do not cover the ask.
package objects

import (
	"testing"
	"time"

	"github.com/apache/yunikorn-core/pkg/common/resources"
	"github.com/apache/yunikorn-core/pkg/mock"
	"github.com/apache/yunikorn-core/pkg/plugins"
)

func TestZZReplayC08ShortfallOtherType(t *testing.T) {
	appQueueMapping := NewAppQueueMapping()
	node := newNode(nodeID1, map[string]resources.Quantity{"first": 10, "second": 10})
	iterator := getNodeIteratorFn(node)
	rootQ, err := createRootQueue(map[string]string{"first": "20", "second": "20"})
	if err != nil {
		t.Fatal(err)
	}
	parentQ, err := createManagedQueueGuaranteed(rootQ, "parent", true, map[string]string{"first": "20", "second": "20"}, map[string]string{"first": "10", "second": "10"}, appQueueMapping)
	if err != nil {
		t.Fatal(err)
	}
	childQ1, err := createManagedQueueGuaranteed(parentQ, "child1", false, map[string]string{"first": "20", "second": "20"}, nil, appQueueMapping)
	if err != nil {
		t.Fatal(err)
	}
	childQ2, err := createManagedQueueGuaranteed(parentQ, "child2", false, map[string]string{"first": "20", "second": "20"}, map[string]string{"first": "10", "second": "10"}, appQueueMapping)
	if err != nil {
		t.Fatal(err)
	}
	alloc1, alloc2, err := creatApp1WithTwoDifferentAllocations(childQ1, node, nil, map[string]resources.Quantity{"first": 10}, map[string]resources.Quantity{"second": 10}, appQueueMapping)
	if err != nil {
		t.Fatal(err)
	}
	childQ1.GetApplication(appID1).AddAllocation(alloc2) // the helper only registers alloc2 with the application in its two-node form
	askRes := map[string]resources.Quantity{"first": 10, "second": 10}
	app2, ask3, err := creatApp2(childQ2, askRes, "alloc3", appQueueMapping)
	if err != nil {
		t.Fatal(err)
	}
	childQ2.incPendingResource(ask3.GetAllocatedResource())
	headRoom := resources.NewResourceFromMap(map[string]resources.Quantity{"first": 20, "second": 20})
	preemptor := NewPreemptor(app2, headRoom, 30*time.Second, ask3, iterator(), false)
	preemptions := []mock.Preemption{mock.NewPreemption(true, "alloc3", nodeID1, []string{"alloc2", "alloc1"}, 1, 1)}
	plugin := mock.NewPreemptionPredicatePlugin(nil, nil, preemptions)
	plugins.RegisterSchedulerPlugin(plugin)
	defer plugins.UnregisterSchedulerPlugins()

	result, ok := preemptor.TryPreemption()
	if !ok || result == nil {
		t.Skipf("preemption was not committed in this world (ok=%v): nothing to check", ok)
	}
	// committed: the victims taken on the chosen node plus its free space must cover the ask
	freed := node.GetAvailableResource()
	for _, a := range []*Allocation{alloc1, alloc2} {
		if a.IsPreempted() && a.GetNodeID() == result.NodeID {
			freed.AddTo(a.GetAllocatedResource())
		}
	}
	if !freed.FitIn(ask3.GetAllocatedResource()) {
		t.Fatalf("REPLAY-CONFIRMED objects.Preemptor.TryPreemption:site@call(resources.Resource.AddTo)#1[counted]: preemption committed (alloc1 preempted=%v, alloc2 preempted=%v, ask triggered=%v) but victims + free space on %s give %v, the ask needs %v",
			alloc1.IsPreempted(), alloc2.IsPreempted(), ask3.HasTriggeredPreemption(), result.NodeID, freed, ask3.GetAllocatedResource())
	}
}
