// replay-pkg: pkg/scheduler/objects
// Finding objects.Application.RemoveAllAllocations:site@call(resources.NewResource)#1[credited]: when the application
// still has an outstanding ask (pending != 0) the user/group usage is NOT decreased although both allocation totals
// are reset to zero: one bound allocation {first:1} + one pending ask, RemoveAllAllocations() -> application reports
// zero allocated, the user tracker keeps {first:1} for ever (the later removal of the ask does not touch user usage).
package objects

import (
	"testing"

	"github.com/apache/yunikorn-core/pkg/common/resources"
	"github.com/apache/yunikorn-core/pkg/scheduler/ugm"
)

func TestZZReplayC03RemoveAllAllocationsUserLeak(t *testing.T) {
	ugm.GetUserManager().ClearUserTrackers()
	ugm.GetUserManager().ClearGroupTrackers()
	queue, err := createRootQueue(map[string]string{"first": "100"})
	if err != nil {
		t.Fatal(err)
	}
	app := newApplication("app-1", "default", "root")
	app.queue = queue
	one := resources.NewResourceFromMap(map[string]resources.Quantity{"first": 1})
	bound := newAllocationAsk("alloc-1", "app-1", one)
	if err = app.AddAllocationAsk(bound); err != nil {
		t.Fatal(err)
	}
	if _, err = app.allocateAsk(bound); err != nil {
		t.Fatal(err)
	}
	bound.SetNodeID("node-1")
	app.addAllocationInternal(Allocated, bound)
	if err = app.AddAllocationAsk(newAllocationAsk("alloc-2", "app-1", one)); err != nil {
		t.Fatal(err)
	}
	assertUserGroupResource(t, getTestUserGroup(), one)
	released := app.RemoveAllAllocations()
	if len(released) != 1 || !resources.IsZero(app.GetAllocatedResource()) {
		t.Fatalf("setup: released %d, allocated %v", len(released), app.GetAllocatedResource())
	}
	usage := ugm.GetUserManager().GetUserResources(getTestUserGroup().User)
	if !resources.IsZero(usage) {
		t.Fatalf("REPLAY-CONFIRMED objects.Application.RemoveAllAllocations:site@call(resources.NewResource)#1[credited]: application holds nothing any more but user %s is still charged %v", getTestUserGroup().User, usage)
	}
}
