// replay-pkg: pkg/scheduler/objects
// Finding objects.sortQueuesByFairnessAndPriority$1:site@call(resources.CompUsageRatioSeparately)#1[ownfairmax]:
// the fair-share comparator reads fairMaxResources[i] / [j] BY POSITION while sort.SliceStable only permutes `queues`:
// as soon as an element has moved, the fair-max value used for a queue is the one of whatever queue started at that
// position. Three sibling queues with shares 0.5 / 0.3 / 0.4 of their own fair-max: presenting the same three
// candidates (each with its own fair-max) in different permutations yields different final orders.
package objects

import (
	"fmt"
	"testing"

	"github.com/apache/yunikorn-core/pkg/common/resources"
)

func TestZZReplayC19FairQueueOrderPermutation(t *testing.T) {
	root, err := createRootQueue(nil)
	if err != nil {
		t.Fatal(err)
	}
	mk := func(name string, alloc int64) *Queue {
		q, e := createManagedQueue(root, name, false, nil)
		if e != nil {
			t.Fatal(e)
		}
		q.IncAllocatedResource(resources.NewResourceFromMap(map[string]resources.Quantity{"first": resources.Quantity(alloc)}), false)
		return q
	}
	a, b, c := mk("a", 50), mk("b", 3), mk("c", 20) // shares: a 50/100, b 3/10, c 20/50
	fm := map[*Queue]*resources.Resource{
		a: resources.NewResourceFromMap(map[string]resources.Quantity{"first": 100}),
		b: resources.NewResourceFromMap(map[string]resources.Quantity{"first": 10}),
		c: resources.NewResourceFromMap(map[string]resources.Quantity{"first": 50}),
	}
	perms := [][]*Queue{{a, b, c}, {a, c, b}, {b, a, c}, {b, c, a}, {c, a, b}, {c, b, a}}
	orders := map[string]bool{}
	for _, p := range perms {
		queues := append([]*Queue{}, p...)
		fair := make([]*resources.Resource, len(queues))
		for i, q := range queues {
			fair[i] = fm[q] // aligned with the queues, the way Queue.sortQueues builds the two slices
		}
		sortQueuesByFairnessAndPriority(queues, fair)
		orders[fmt.Sprint(queues[0].Name, queues[1].Name, queues[2].Name)] = true
	}
	if len(orders) != 1 {
		t.Fatalf("REPLAY-CONFIRMED objects.sortQueuesByFairnessAndPriority$1:site@call(resources.CompUsageRatioSeparately)#1[ownfairmax]: the same three queues (shares a=0.5 b=0.3 c=0.4) sorted from the six input permutations give %d different orders: %v", len(orders), orders)
	}
}

func TestZZReplayC19PriorityAndFairnessPermutation(t *testing.T) {
	root, err := createRootQueue(nil)
	if err != nil {
		t.Fatal(err)
	}
	mk := func(name string, alloc int64) *Queue {
		q, e := createManagedQueue(root, name, false, nil)
		if e != nil {
			t.Fatal(e)
		}
		q.IncAllocatedResource(resources.NewResourceFromMap(map[string]resources.Quantity{"first": resources.Quantity(alloc)}), false)
		return q
	}
	a, b, c := mk("pa", 50), mk("pb", 3), mk("pc", 20) // equal priorities, shares 0.5 / 0.3 / 0.4
	fm := map[*Queue]*resources.Resource{
		a: resources.NewResourceFromMap(map[string]resources.Quantity{"first": 100}),
		b: resources.NewResourceFromMap(map[string]resources.Quantity{"first": 10}),
		c: resources.NewResourceFromMap(map[string]resources.Quantity{"first": 50}),
	}
	perms := [][]*Queue{{a, b, c}, {a, c, b}, {b, a, c}, {b, c, a}, {c, a, b}, {c, b, a}}
	orders := map[string]bool{}
	for _, p := range perms {
		queues := append([]*Queue{}, p...)
		fair := make([]*resources.Resource, len(queues))
		for i, q := range queues {
			fair[i] = fm[q]
		}
		sortQueuesByPriorityAndFairness(queues, fair)
		orders[fmt.Sprint(queues[0].Name, queues[1].Name, queues[2].Name)] = true
	}
	if len(orders) != 1 {
		t.Fatalf("REPLAY-CONFIRMED objects.sortQueuesByPriorityAndFairness$1:site@call(resources.CompUsageRatioSeparately)#1[ownfairmax]: the same three queues sorted from the six input permutations give %d different orders: %v", len(orders), orders)
	}
}
