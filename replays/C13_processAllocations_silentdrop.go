// replay-pkg: pkg/scheduler
// Counter-model of scheduler.ClusterContext.processAllocations:site@call(scheduler.PartitionContext.UpdateAllocation)#1[notdropped]:
// an SI allocation with Placeholder=true and an empty TaskGroupName: NewAllocationFromSI returns nil,
// UpdateAllocation(nil) returns a nil error, and the shim never gets a RejectedAllocation for the item.
package scheduler

import (
	"testing"

	"github.com/apache/yunikorn-core/pkg/rmproxy/rmevent"
	"github.com/apache/yunikorn-scheduler-interface/lib/go/si"
)

type zzRejectRecorder struct{ rejected []*si.RejectedAllocation }

func (h *zzRejectRecorder) HandleEvent(ev interface{}) {
	if e, ok := ev.(*rmevent.RMRejectedAllocationEvent); ok {
		h.rejected = append(h.rejected, e.RejectedAllocations...)
	}
}

func TestZZReplayC13SilentDrop(t *testing.T) {
	setupUGM()
	partition, err := newBasePartition()
	if err != nil {
		t.Fatal(err)
	}
	rec := &zzRejectRecorder{}
	cc := &ClusterContext{partitions: map[string]*PartitionContext{partition.Name: partition}}
	cc.rmEventHandler = rec
	app := newApplication(appID1, "default", defQueue)
	if err = partition.AddApplication(app); err != nil {
		t.Fatal(err)
	}
	cc.processAllocations(&si.AllocationRequest{
		RmID: "rm-1",
		Allocations: []*si.Allocation{{
			AllocationKey:    "ph-invalid",
			ApplicationID:    appID1,
			PartitionName:    partition.Name,
			Placeholder:      true, // placeholder without task group name: invalid
			ResourcePerAlloc: &si.Resource{Resources: map[string]*si.Quantity{"vcore": {Value: 1}}},
		}},
	})
	if app.GetAllocationAsk("ph-invalid") != nil {
		t.Fatal("invalid allocation was accepted")
	}
	if len(rec.rejected) != 1 || rec.rejected[0].AllocationKey != "ph-invalid" {
		t.Fatalf("REPLAY-CONFIRMED scheduler.ClusterContext.processAllocations:site@call(scheduler.PartitionContext.UpdateAllocation)#1[notdropped]: invalid allocation ph-invalid was neither accepted nor rejected (%d rejections sent)", len(rec.rejected))
	}
}
