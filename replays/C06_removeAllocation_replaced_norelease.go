// replay-pkg: pkg/scheduler
// Counter-model of scheduler.PartitionContext.removeAllocation:site@call(objects.Allocation.GetAllocatedResource)#1[confirmed]:
// the shim sends a release with termination type PLACEHOLDER_REPLACED for a bound placeholder that has no replacement
// in flight; alloc.GetRelease() is nil and is dereferenced: the core panics on a well-formed SI message.
package scheduler

import (
	"testing"

	"github.com/apache/yunikorn-core/pkg/common/resources"
	"github.com/apache/yunikorn-scheduler-interface/lib/go/si"
)

func TestZZReplayC06ReplacedWithoutReplacement(t *testing.T) {
	setupUGM()
	partition, err := newBasePartition()
	if err != nil {
		t.Fatal(err)
	}
	nodeRes := resources.NewResourceFromMap(map[string]resources.Quantity{"first": 10})
	res := resources.NewResourceFromMap(map[string]resources.Quantity{"first": 2})
	setupNode(t, nodeID1, partition, nodeRes)
	app := newApplicationTG(appID1, "default", defQueue, res)
	if err = partition.AddApplication(app); err != nil {
		t.Fatal(err)
	}
	if err = app.AddAllocationAsk(newAllocationAskTG(phID, appID1, taskGroup, res, true)); err != nil {
		t.Fatal(err)
	}
	if result := partition.tryAllocate(); result == nil {
		t.Fatal("placeholder should be allocated")
	}
	defer func() {
		if r := recover(); r != nil {
			t.Fatalf("REPLAY-CONFIRMED scheduler.PartitionContext.removeAllocation:site@call(objects.Allocation.GetAllocatedResource)#1[confirmed]: release(PLACEHOLDER_REPLACED) of a placeholder without replacement panicked: %v", r)
		}
	}()
	partition.removeAllocation(&si.AllocationRelease{
		PartitionName:   partition.Name,
		ApplicationID:   appID1,
		AllocationKey:   phID,
		TerminationType: si.TerminationType_PLACEHOLDER_REPLACED,
	})
	if !resources.IsZero(partition.GetQueue(defQueue).GetAllocatedResource()) || !resources.IsZero(partition.GetNode(nodeID1).GetAllocatedResource()) {
		t.Fatalf("REPLAY-CONFIRMED placeholder is gone from the application but queue %v / node %v still account for it", partition.GetQueue(defQueue).GetAllocatedResource(), partition.GetNode(nodeID1).GetAllocatedResource())
	}
}
