// replay-pkg: pkg/scheduler/placement
// Counter-model of placement.AppPlacementManager.PlaceApplication:site@call(objects.Application.SetQueuePath)#3[recoveryonlyforced]
// with the recovery-queue test taken in the sense the rest of the core uses (common.IsRecoveryQueue, case-insensitive, which
// is what PartitionContext.AddApplication and Queue.CheckSubmitAccess use): a NON-forced application asks for queue
// root.@Recovery@ (mixed case) through a `provided` rule with create: true while the recovery queue does not exist; the
// case-sensitive comparison in PlaceApplication lets the name through, the nearest existing ancestor (root, ACL *)
// grants submit access and the application is placed; AddApplication then creates root.@recovery@ for it.
package placement

import (
	"testing"

	"github.com/apache/yunikorn-core/pkg/common"
	"github.com/apache/yunikorn-core/pkg/common/configs"
	"github.com/apache/yunikorn-core/pkg/common/security"
)

func TestZZReplayC17RecoveryQueueMixedCase(t *testing.T) {
	data := `
partitions:
  - name: default
    queues:
      - name: root
        submitacl: "*"
        queues:
          - name: testchild
`
	if err := initQueueStructure([]byte(data)); err != nil {
		t.Fatal(err)
	}
	man := NewPlacementManager(nil, queueFunc, false)
	if err := man.UpdateRules([]configs.PlacementRule{{Name: "provided", Create: true}}); err != nil {
		t.Fatal(err)
	}
	user := security.UserGroup{User: "testuser", Groups: []string{"testgroup"}}
	for _, name := range []string{"root.@Recovery@", "root.@RECOVERY@"} {
		app := newApplication("app-1", "default", name, user, nil, nil, "")
		if app.IsCreateForced() {
			t.Fatal("setup: application must not be force-created")
		}
		err := man.PlaceApplication(app)
		if err == nil && common.IsRecoveryQueue(app.GetQueuePath()) {
			t.Fatalf("REPLAY-CONFIRMED placement.AppPlacementManager.PlaceApplication:site@call(objects.Application.SetQueuePath)#3[recoveryonlyforced]: non-forced application was placed in %s (the recovery queue)", app.GetQueuePath())
		}
	}
}
