// replay-pkg: pkg/events
// Counter-model of events.eventRingBuffer.GetRecentEvents:ensures[count]: capacity 10, 15 events (ids 5..14 stored),
// GetRecentEvents(12): the computed start id 3 lies below lowestId, id2pos reports "not found" and nothing is returned
// although 10 events are stored ("it is allowed for count to be larger than the number of elements").
package events

import (
	"testing"

	"github.com/apache/yunikorn-scheduler-interface/lib/go/si"
)

func TestZZReplayC20GetRecentEventsCount(t *testing.T) {
	e := newEventRingBuffer(10)
	for i := 0; i < 15; i++ {
		e.Add(&si.EventRecord{TimestampNano: int64(i)})
	}
	res := e.GetRecentEvents(12)
	if len(res) != 10 {
		t.Fatalf("REPLAY-CONFIRMED events.eventRingBuffer.GetRecentEvents:ensures[count]: 10 events stored, asked for the 12 most recent, got %d", len(res))
	}
	for j, r := range res {
		if r.TimestampNano != int64(5+j) {
			t.Fatalf("REPLAY-CONFIRMED events.eventRingBuffer.GetRecentEvents:ensures[exact]: res[%d] has id %d, want %d", j, r.TimestampNano, 5+j)
		}
	}
}
