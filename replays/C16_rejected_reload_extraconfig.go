// replay-pkg: pkg/scheduler
// Finding scheduler.ClusterContext.processRMConfigUpdateEvent:site@call(configs.SetConfigMap)#1[aftervalidation]:
// the extra configuration of a reload is installed (and its callbacks fired) BEFORE the queue configuration is
// validated: a reload that is rejected still changes the extra configuration the scheduler runs with.
package scheduler

import (
	"testing"

	"github.com/apache/yunikorn-core/pkg/common/configs"
	"github.com/apache/yunikorn-core/pkg/rmproxy/rmevent"
)

func TestZZReplayC16RejectedReloadChangesExtraConfig(t *testing.T) {
	setupUGM()
	partition, err := newBasePartition()
	if err != nil {
		t.Fatal(err)
	}
	cc := &ClusterContext{partitions: map[string]*PartitionContext{partition.Name: partition}, policyGroup: "policygroup"}
	before := map[string]string{"event.ringBufferCapacity": "1000"}
	configs.SetConfigMap(before)
	defer configs.SetConfigMap(map[string]string{})
	ch := make(chan *rmevent.Result, 1)
	cc.processRMConfigUpdateEvent(&rmevent.RMConfigUpdateEvent{
		RmID:        "rm-1",
		Config:      "partitions:\n  - name: default\n    queues:\n      - name: root\n        queues:\n          - name: dup\n          - name: dup\n", // invalid: duplicate queue names
		ExtraConfig: map[string]string{"event.ringBufferCapacity": "7"},
		Channel:     ch,
	})
	res := <-ch
	if res.Succeeded {
		t.Fatal("setup: the reload should have been rejected")
	}
	if got := configs.GetConfigMap()["event.ringBufferCapacity"]; got != "1000" {
		t.Fatalf("REPLAY-CONFIRMED scheduler.ClusterContext.processRMConfigUpdateEvent:site@call(configs.SetConfigMap)#1[aftervalidation]: reload rejected (%s) but the extra configuration changed: event.ringBufferCapacity=%q (was 1000)", res.Reason, got)
	}
}
