// replay-pkg: pkg/scheduler/objects
// Finding objects.pendingTieBreakIncomparabilityTransitive:concl#1: the last tie-break of the fair queue comparators,
// StrictlyGreaterThan(Sub(l.pending, r.pending), Zero), is the strict vector order, whose incomparability is not
// transitive, so it is not a strict weak order and the result of sort.SliceStable depends on the input permutation:
// pending a=(2,0) b=(0,1) c=(1,0) with equal priority and equal fair share: a has strictly more pending than c, yet
// from the input order c,b,a the sorted result keeps a behind c.
package objects

import (
	"fmt"
	"testing"

	"github.com/apache/yunikorn-core/pkg/common/resources"
)

func TestZZReplayC19PendingTieBreak(t *testing.T) {
	root, err := createRootQueue(nil)
	if err != nil {
		t.Fatal(err)
	}
	mk := func(name string, first, second int64) *Queue {
		q, e := createManagedQueue(root, name, false, nil)
		if e != nil {
			t.Fatal(e)
		}
		q.incPendingResource(resources.NewResourceFromMap(map[string]resources.Quantity{"first": resources.Quantity(first), "second": resources.Quantity(second)}))
		return q
	}
	a, b, c := mk("ta", 2, 0), mk("tb", 0, 1), mk("tc", 1, 0)
	orders := map[string]bool{}
	for _, p := range [][]*Queue{{a, b, c}, {a, c, b}, {b, a, c}, {b, c, a}, {c, a, b}, {c, b, a}} {
		queues := append([]*Queue{}, p...)
		fair := make([]*resources.Resource, len(queues)) // no usage, no fair max: equal shares
		sortQueuesByFairnessAndPriority(queues, fair)
		pos := map[*Queue]int{}
		for i, q := range queues {
			pos[q] = i
		}
		orders[fmt.Sprint(pos[a] < pos[c])] = true
	}
	if len(orders) != 1 {
		t.Fatalf("REPLAY-CONFIRMED objects.pendingTieBreakIncomparabilityTransitive:concl#1: queue ta (pending 2,0) has strictly more pending than tc (1,0), but whether ta is tried before tc depends on the input permutation: %v", orders)
	}
}
