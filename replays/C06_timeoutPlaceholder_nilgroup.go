// replay-pkg: pkg/scheduler/objects
// Counter-model of objects.Application.timeoutPlaceholderProcessing:site@fieldaddr(PlaceholderData.TimedOut)#1[tracked]:
// an Accepted gang application with one pending placeholder ask and one pending REAL ask without task group; when the
// placeholder timer fires, case 2 walks every unallocated request and dereferences placeholderData[""] (nil).
// In production this runs in a timer goroutine: the panic takes the whole scheduler down.
package objects

import (
	"testing"

	"github.com/apache/yunikorn-core/pkg/common/resources"
)

func TestZZReplayC06TimeoutPlaceholderNilGroup(t *testing.T) {
	queue, err := createRootQueue(map[string]string{"first": "100"})
	if err != nil {
		t.Fatal(err)
	}
	app, _ := newApplicationWithHandler("app-1", "default", "root")
	app.queue = queue
	res := resources.NewResourceFromMap(map[string]resources.Quantity{"first": 1})
	if err = app.AddAllocationAsk(newAllocationAskTG("ph-1", "app-1", "tg-1", res)); err != nil {
		t.Fatal(err)
	}
	if err = app.AddAllocationAsk(newAllocationAsk("real-1", "app-1", res)); err != nil { // no task group
		t.Fatal(err)
	}
	defer func() {
		if r := recover(); r != nil {
			t.Fatalf("REPLAY-CONFIRMED objects.Application.timeoutPlaceholderProcessing:site@fieldaddr(PlaceholderData.TimedOut)#1[tracked]: placeholder timeout panicked: %v", r)
		}
	}()
	app.timeoutPlaceholderProcessing()
}
