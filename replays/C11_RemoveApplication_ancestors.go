// replay-pkg: pkg/scheduler/objects
// Counter-model of objects.Queue.RemoveApplication:ensures[untracked]: an application tracked as "allocating accepted"
// on leaf and parent (setAllocatingAccepted walks up) is removed from the leaf; the parent keeps the id for ever, so a
// parent with maxApplications 1 stays blocked for every later application although the queue is empty.
package objects

import "testing"

func TestZZReplayC11RemoveApplicationAncestors(t *testing.T) {
	root, err := createRootQueue(nil)
	if err != nil {
		t.Fatal(err)
	}
	parent, err := createManagedQueueMaxApps(root, "parent", true, nil, 1)
	if err != nil {
		t.Fatal(err)
	}
	leaf, err := createManagedQueue(parent, "leaf", false, nil)
	if err != nil {
		t.Fatal(err)
	}
	app1 := newApplication("app-1", "default", "root.parent.leaf")
	app1.SetQueue(leaf)
	leaf.AddApplication(app1)
	if !leaf.canRunApp("app-1") {
		t.Fatal("app-1 should pass the gate on an empty hierarchy")
	}
	leaf.setAllocatingAccepted("app-1") // what TryAllocate does for an Accepted application that got an allocation
	leaf.RemoveApplication(app1)
	for q := leaf; q != nil; q = q.parent {
		q.RLock()
		tracked := q.allocatingAcceptedApps["app-1"]
		q.RUnlock()
		if tracked {
			t.Errorf("REPLAY-CONFIRMED objects.Queue.RemoveApplication:ensures[untracked]: queue %s still lists removed application app-1 as allocating", q.QueuePath)
		}
	}
	if !leaf.canRunApp("app-2") {
		t.Errorf("REPLAY-CONFIRMED objects.Queue.RemoveApplication:ensures[untracked]: hierarchy is empty but app-2 does not pass the max-applications gate")
	}
}
