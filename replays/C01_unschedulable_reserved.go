// replay-pkg: pkg/scheduler/objects
// Call-site findings objects.Application.tryReservedAllocate:site@call(objects.Application.tryNode)#1[schedulable] and
// objects.Application.tryRequiredNode:site@call(objects.Application.tryNode)#1[schedulable]: both reach the bind gate
// without any IsSchedulable() check. A node that holds a reservation (or is the required node of an ask) and is then
// marked unschedulable (drained / cordoned) still receives the allocation from the scheduler.
package objects

import (
	"testing"

	"github.com/apache/yunikorn-core/pkg/common/resources"
)

func TestZZReplayC01ReservedOnUnschedulableNode(t *testing.T) {
	node := newNode("node-1", map[string]resources.Quantity{"first": 10})
	app := newApplication("app-1", "default", "root.unknown")
	queue, err := createRootQueue(map[string]string{"first": "100"})
	if err != nil {
		t.Fatal(err)
	}
	app.queue = queue
	res := resources.NewResourceFromMap(map[string]resources.Quantity{"first": 5})
	ask := newAllocationAsk("alloc-1", "app-1", res)
	if err = app.AddAllocationAsk(ask); err != nil {
		t.Fatal(err)
	}
	if err = app.Reserve(node, ask); err != nil {
		t.Fatal(err)
	}
	node.SetSchedulable(false) // the node is drained after the reservation was made
	result := app.tryReservedAllocate(resources.NewResourceFromMap(map[string]resources.Quantity{"first": 10}), getNodeIteratorFn(node))
	if result != nil && result.ResultType == AllocatedReserved && !node.IsSchedulable() && node.GetAllocation("alloc-1") != nil {
		t.Fatalf("REPLAY-CONFIRMED objects.Application.tryReservedAllocate:site@call(objects.Application.tryNode)#1[schedulable]: alloc-1 was bound on unschedulable node %s", result.NodeID)
	}
}

func TestZZReplayC01RequiredNodeUnschedulable(t *testing.T) {
	node := newNode("node-1", map[string]resources.Quantity{"first": 10})
	app := newApplication("app-1", "default", "root.unknown")
	queue, err := createRootQueue(map[string]string{"first": "100"})
	if err != nil {
		t.Fatal(err)
	}
	app.queue = queue
	res := resources.NewResourceFromMap(map[string]resources.Quantity{"first": 5})
	ask := newAllocationAsk("alloc-1", "app-1", res)
	ask.SetRequiredNode("node-1")
	if err = app.AddAllocationAsk(ask); err != nil {
		t.Fatal(err)
	}
	node.SetSchedulable(false)
	result := app.tryRequiredNode(ask, func(id string) *Node {
		if id == "node-1" {
			return node
		}
		return nil
	})
	if result != nil && result.ResultType == Allocated && node.GetAllocation("alloc-1") != nil {
		t.Fatalf("REPLAY-CONFIRMED objects.Application.tryRequiredNode:site@call(objects.Application.tryNode)#1[schedulable]: alloc-1 was bound on unschedulable required node %s", result.NodeID)
	}
}
