// replay-pkg: pkg/scheduler
// Finding scheduler.PartitionContext.removeNodeAllocations:site@append(released)#1[phcounted]: when the node that hosts
// a placeholder is removed while its replacement sits on ANOTHER node (in-flight cross-node swap) the placeholder is
// released through the "continue" branch, which never calls decPhAllocationCount: the partition's placeholder
// counter stays at 1 although no placeholder exists any more.
package scheduler

import (
	"testing"

	"github.com/apache/yunikorn-core/pkg/common/resources"
	"github.com/apache/yunikorn-core/pkg/mock"
	"github.com/apache/yunikorn-core/pkg/plugins"
	"github.com/apache/yunikorn-core/pkg/scheduler/objects"
)

func TestZZReplayC03RemoveNodePlaceholderCount(t *testing.T) {
	setupUGM()
	partition, err := newBasePartition()
	if err != nil {
		t.Fatal(err)
	}
	plugins.RegisterSchedulerPlugin(mock.NewPredicatePlugin(false, nil))
	defer plugins.RegisterSchedulerPlugin(mock.NewPredicatePlugin(false, nil))
	nodeRes := resources.NewResourceFromMap(map[string]resources.Quantity{"first": 10, "second": 10})
	res := resources.NewResourceFromMap(map[string]resources.Quantity{"first": 2, "second": 2})
	setupNode(t, nodeID1, partition, nodeRes)
	app := newApplicationTG(appID1, "default", defQueue, res)
	if err = partition.AddApplication(app); err != nil {
		t.Fatal(err)
	}
	if err = app.AddAllocationAsk(newAllocationAskTG(phID, appID1, taskGroup, res, true)); err != nil {
		t.Fatal(err)
	}
	if result := partition.tryAllocate(); result == nil || result.NodeID != nodeID1 {
		t.Fatal("placeholder should be allocated on node-1")
	}
	if partition.getPhAllocationCount() != 1 {
		t.Fatalf("setup: placeholder count %d", partition.getPhAllocationCount())
	}
	plugins.RegisterSchedulerPlugin(mock.NewPredicatePlugin(false, map[string]int{nodeID1: 0}))
	setupNode(t, nodeID2, partition, nodeRes)
	if err = app.AddAllocationAsk(newAllocationAskTG(allocKey, appID1, taskGroup, res, false)); err != nil {
		t.Fatal(err)
	}
	if result := partition.tryPlaceholderAllocate(); result == nil || result.ResultType != objects.Replaced || result.NodeID != nodeID2 {
		t.Fatal("replacement should be placed on node-2")
	}
	released, confirmed := partition.removeNode(nodeID1)
	if len(released) != 1 || len(confirmed) != 1 {
		t.Fatalf("setup: released %d confirmed %d", len(released), len(confirmed))
	}
	for _, a := range app.GetAllAllocations() {
		if a.IsPlaceholder() {
			t.Fatal("setup: a placeholder is still there")
		}
	}
	if n := partition.getPhAllocationCount(); n != 0 {
		t.Fatalf("REPLAY-CONFIRMED scheduler.PartitionContext.removeNodeAllocations:site@append(released)#1[phcounted]: no placeholder allocation exists but the partition's placeholder counter is %d", n)
	}
}
