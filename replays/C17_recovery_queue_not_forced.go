// replay-pkg: pkg/scheduler/placement
// Counter-model of placement.AppPlacementManager.PlaceApplication:site@call(objects.Application.SetQueuePath)#3[recoveryonlyforced]:
// a NON-forced application asks for queue root.@recovery@ through a `provided` rule with create: true while that queue
// does not exist; the name falls through the "recovery only if forced" test into the generic branch, the nearest
// existing ancestor (root, ACL *) grants submit access, and the application is placed in the recovery queue.
package placement

import (
	"testing"

	"github.com/apache/yunikorn-core/pkg/common"
	"github.com/apache/yunikorn-core/pkg/common/configs"
	"github.com/apache/yunikorn-core/pkg/common/security"
)

func TestZZReplayC17RecoveryQueueNotForced(t *testing.T) {
	data := `
partitions:
  - name: default
    queues:
      - name: root
        submitacl: "*"
        queues:
          - name: testchild
`
	if err := initQueueStructure([]byte(data)); err != nil {
		t.Fatal(err)
	}
	man := NewPlacementManager(nil, queueFunc, false)
	if err := man.UpdateRules([]configs.PlacementRule{{Name: "provided", Create: true}}); err != nil {
		t.Fatal(err)
	}
	user := security.UserGroup{User: "testuser", Groups: []string{"testgroup"}}
	app := newApplication("app-1", "default", common.RecoveryQueueFull, user, nil, nil, "")
	if app.IsCreateForced() {
		t.Fatal("setup: application must not be force-created")
	}
	err := man.PlaceApplication(app)
	if err == nil && app.GetQueuePath() == common.RecoveryQueueFull {
		t.Fatalf("REPLAY-CONFIRMED placement.AppPlacementManager.PlaceApplication:site@call(objects.Application.SetQueuePath)#3[recoveryonlyforced]: non-forced application was placed in %s", app.GetQueuePath())
	}
}
