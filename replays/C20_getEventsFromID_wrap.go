// replay-pkg: pkg/events
// Counter-model of events.eventRingBuffer.getEventsFromID:ensures[count]/[exact]@ret3 (wrap branch):
// capacity 10, 15 events added (head=5, full), query (start=7, count=2): pos=7 >= head, pos+count-capacity
// underflows in uint64 and "end > 0" is always true, so a second range [0, head) is appended.
package events

import (
	"testing"

	"github.com/apache/yunikorn-scheduler-interface/lib/go/si"
)

func TestZZReplayC20GetEventsFromIDWrap(t *testing.T) {
	e := newEventRingBuffer(10)
	for i := 0; i < 15; i++ {
		e.Add(&si.EventRecord{TimestampNano: int64(i)})
	}
	res, lowest, last := e.GetEventsFromID(7, 2)
	if lowest != 5 || last != 14 {
		t.Fatalf("range: lowest=%d last=%d", lowest, last)
	}
	if len(res) != 2 {
		t.Fatalf("REPLAY-CONFIRMED events.eventRingBuffer.getEventsFromID:ensures[count]: asked for 2 events from id 7, got %d", len(res))
	}
	for j, r := range res {
		if r.TimestampNano != int64(7+j) {
			t.Fatalf("REPLAY-CONFIRMED events.eventRingBuffer.getEventsFromID:ensures[exact]: res[%d] has id %d, want %d", j, r.TimestampNano, 7+j)
		}
	}
}
