// replay-pkg: pkg/scheduler/objects
// Counter-model of objects.Application.UpdateAllocationResources:ensures[boundph]: the in-place resize of a BOUND
// PLACEHOLDER is booked into allocatedResource (the total of real allocations) instead of allocatedPlaceholder, so the
// application's two totals stop being the sums of their allocations: placeholder {first:1} -> {first:2} leaves
// allocatedPlaceholder={first:1} and allocatedResource={first:1}.
package objects

import (
	"testing"

	"github.com/apache/yunikorn-core/pkg/common/resources"
)

func TestZZReplayC03ResizeBoundPlaceholder(t *testing.T) {
	queue, err := createRootQueue(map[string]string{"first": "100"})
	if err != nil {
		t.Fatal(err)
	}
	app := newApplication("app-1", "default", "root")
	app.queue = queue
	one := resources.NewResourceFromMap(map[string]resources.Quantity{"first": 1})
	two := resources.NewResourceFromMap(map[string]resources.Quantity{"first": 2})
	ph := newAllocationAskAll("ph-1", "app-1", "tg-1", one, true, 0)
	if err = app.AddAllocationAsk(ph); err != nil {
		t.Fatal(err)
	}
	// bind the placeholder the way the scheduler does
	if _, err = app.allocateAsk(ph); err != nil {
		t.Fatal(err)
	}
	ph.SetNodeID("node-1")
	app.addAllocationInternal(Allocated, ph)
	queue.IncAllocatedResource(one, false)
	if !resources.Equals(app.GetPlaceholderResource(), one) || !resources.IsZero(app.GetAllocatedResource()) {
		t.Fatalf("setup: placeholder %v real %v", app.GetPlaceholderResource(), app.GetAllocatedResource())
	}
	// the shim reports an in-place resize of the bound placeholder
	resized := newAllocationAll("ph-1", "app-1", "node-1", "tg-1", two, true, 0)
	if err = app.UpdateAllocationResources(resized, false); err != nil {
		t.Fatal(err)
	}
	if !resources.Equals(app.GetPlaceholderResource(), two) || !resources.IsZero(app.GetAllocatedResource()) {
		t.Fatalf("REPLAY-CONFIRMED objects.Application.UpdateAllocationResources:ensures[boundph]: after resizing the bound placeholder to %v the application reports placeholder=%v real=%v", two, app.GetPlaceholderResource(), app.GetAllocatedResource())
	}
}
