// replay-pkg: pkg/common/security
// Counter-model of security.UserGroupCache.ConvertUGI:site@fieldaddr(UserGroupInformation.User)#2[present]:
// ugi == nil, force == true (force-created / recovered application without user information): the forced branch
// writes through the nil message.
package security

import "testing"

func TestZZReplayC13ConvertUGINilForced(t *testing.T) {
	defer func() {
		if r := recover(); r != nil {
			t.Fatalf("REPLAY-CONFIRMED security.UserGroupCache.ConvertUGI:site@fieldaddr(UserGroupInformation.User)#2[present]: ConvertUGI(nil, force=true) panicked: %v", r)
		}
	}()
	ug, err := GetUserGroupCacheTest().ConvertUGI(nil, true)
	if err != nil {
		t.Fatalf("REPLAY-CONFIRMED forced conversion failed: %v", err)
	}
	if ug.User == "" {
		t.Fatalf("REPLAY-CONFIRMED forced conversion returned no user")
	}
}
