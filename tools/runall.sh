#!/bin/bash
# runall.sh: run every claimed quick check on the current /repo tree (must be clean) and report
cd /verif
[ -z "$(git -C /repo status --short)" ] || { echo "/repo has uncommitted changes:"; git -C /repo status --short; }
fail=0
for p in $(python3 -c "import json;print(' '.join(c['property_id'] for c in json.load(open('MANIFEST.json'))['checks']))"); do
  out=$(./check $p 2>&1); rc=$?
  echo "$p rc=$rc $(echo "$out" | grep '^govc:' | tail -1)"
  [ $rc -eq 0 ] || { fail=1; echo "$out" | grep "VIOLATION\|obligation" | head -5; }
done
exit $fail
