#!/bin/bash
# confirm_seed.sh <id> [srcdir]: confirm a seeded change in a scratch worktree of /repo:
#  (1) patch applies, tree builds, full suite unchanged (apart from the baseline's known failures)
#  (2) demo test fails with the patch  (3) demo test passes without it.  Then store it under /verif/seeded/<id>/.
set -u
export PATH=/opt/veriftools/go1.26.8/bin:$PATH GOFLAGS=-mod=mod GOPROXY=off GOSUMDB=off GOTOOLCHAIN=local
id="$1"; src="${2:-/tmp/seed/out-$id}"; name="${3:-$id}"
wt=/tmp/confirm-$name
git -C /repo worktree remove --force $wt 2>/dev/null
git -C /repo worktree add -q --detach $wt HEAD || exit 2
trap 'git -C /repo worktree remove --force $wt; rm -rf $wt' EXIT
pkg=$(cat $src/demo_pkg.txt | tr -d '\n ')
demo=$(ls $src/zz_seed_*_test.go | head -1)
res=$src/confirm.txt; : > $res
git -C $wt apply $src/patch.diff || { echo "PATCH DOES NOT APPLY" | tee -a $res; exit 1; }
(cd $wt && go build ./... ) || { echo "BUILD FAILS" | tee -a $res; exit 1; }
(cd $wt && go test -vet=off -count=1 -timeout 25m ./... 2>&1 | grep -E "^(FAIL|---|ok|panic)" | grep -v "^ok" > /tmp/confirm-$name.suite)
grep -E "^--- FAIL" /tmp/confirm-$name.suite | grep -vE "TestCustomLoggingConfiguration|Test_GzipCompression|Test_GzipExcludesEventStream|Test_HeaderChecks|Test_RouterHandling|Test_GzipMinCompressionSize|Test_GzipVaryHeaderNotDuplicated|Test_RedirectDebugHandler" > /tmp/confirm-$name.new
if [ -s /tmp/confirm-$name.new ]; then
  # timing-sensitive tests fail under load: re-run each newly failing test alone, three times, with the patch still applied
  still=""
  for t in $(sed -n 's/^--- FAIL: \([A-Za-z0-9_]*\).*/\1/p' /tmp/confirm-$name.new | sort -u); do
    tp=$(grep -rl "func $t(" $wt/pkg --include=*_test.go | head -1); tp=$(dirname ${tp#$wt/})
    # three separate processes: some tests (TestApplicationHistoryTracking) are not repeat-safe inside one process
    okc=0; for k in 1 2 3; do (cd $wt && go test -vet=off -count=1 -timeout 600s -run "^$t\$" ./$tp/ > /tmp/confirm-$name.rerun 2>&1) && okc=$((okc+1)); done
    [ $okc -ge 2 ] || still="$still $t"
  done
  if [ -z "$still" ]; then echo "SUITE: tests that failed once under load pass 3/3 alone with the patch: $(sed -n 's/^--- FAIL: \([A-Za-z0-9_]*\).*/\1/p' /tmp/confirm-$name.new | sort -u | tr '\n' ' ')" | tee -a $res; : > /tmp/confirm-$name.new; fi
fi
if [ -s /tmp/confirm-$name.new ]; then echo "SUITE: new failures with patch:" | tee -a $res; cat /tmp/confirm-$name.new | tee -a $res; ok1=no; else echo "SUITE: unchanged with patch (only baseline failures)" | tee -a $res; ok1=yes; fi
cp $demo $wt/$pkg/
(cd $wt && go test -vet=off -count=1 -timeout 300s -run 'TestZZSeed' ./$pkg/ > /tmp/confirm-$name.d1 2>&1); r1=$?
git -C $wt apply -R $src/patch.diff
(cd $wt && go test -vet=off -count=1 -timeout 300s -run 'TestZZSeed' ./$pkg/ > /tmp/confirm-$name.d2 2>&1); r2=$?
echo "DEMO with patch: exit $r1 (want non-zero); without patch: exit $r2 (want 0)" | tee -a $res
tail -5 /tmp/confirm-$name.d1 >> $res
if [ "$ok1" = yes ] && [ $r1 -ne 0 ] && [ $r2 -eq 0 ]; then
  mkdir -p /verif/seeded/$name && cp $src/patch.diff $demo $src/demo_pkg.txt $src/meta.json $src/confirm.txt /verif/seeded/$name/
  echo "CONFIRMED -> /verif/seeded/$name" | tee -a $res
else echo "NOT CONFIRMED" | tee -a $res; fi
rm -f /tmp/confirm-$name.*
