#!/bin/bash
# selftest.sh [ids...]: must-fail corpus. For every change under /verif/seeded/<id>/ (and /verif/selftest/mutants/<id>/)
# apply patch.diff to a scratch worktree of /repo's HEAD, run the quick check of the property it breaks against that
# worktree (VERIF_REPO), and require a VIOLATION; then run the same checks on the clean worktree and require none.
# Nothing under /repo or /verif/evidence is touched. Prints one line per mutant: CAUGHT / MISSED (+ failing obligations).
set -u
export PATH=/opt/veriftools/go1.26.8/bin:$PATH GOFLAGS=-mod=mod GOPROXY=off GOSUMDB=off GOTOOLCHAIN=local
wt=/tmp/selftest-wt-$$
out=/tmp/selftest-out-$$
git -C /repo worktree add -q --detach $wt HEAD || exit 2
trap 'git -C /repo worktree remove --force $wt 2>/dev/null; rm -rf $wt $out' EXIT
mkdir -p $out/evidence
export VERIF_REPO=$wt VERIF_OUT=$out VERIF_EVIDENCE_DIR=$out/evidence
dirs=""
if [ $# -gt 0 ]; then for i in "$@"; do for d in /verif/seeded/$i /verif/selftest/mutants/$i; do [ -d $d ] && dirs="$dirs $d"; done; done
else dirs=$(ls -d /verif/seeded/*/ /verif/selftest/mutants/*/ 2>/dev/null); fi
missed=0
for d in $dirs; do
  id=$(basename $d)
  prop=$(python3 -c "import json;print(json.load(open('$d/meta.json'))['property'])")
  git -C $wt apply $d/patch.diff || { echo "SKIP $id: patch does not apply to HEAD"; continue; }
  res=$(cd /verif && bin/govc verify --property $prop 2>&1)
  git -C $wt apply -R $d/patch.diff
  if echo "$res" | grep -q "^VIOLATION property=$prop"; then
    echo "CAUGHT $id ($prop): $(echo "$res" | grep '^  obligation' | awk '{print $2}' | tr '\n' ' ' | cut -c1-300)"
  else
    echo "MISSED $id ($prop): $(echo "$res" | grep '^govc:')"; missed=$((missed+1))
  fi
done
echo "selftest: missed=$missed"
exit $missed
