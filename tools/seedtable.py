#!/usr/bin/env python3
"""seedtable.py <selftest-log>: rewrite the table between the SEEDTABLE markers of DESIGN.md from /verif/seeded/*/meta.json
and the CAUGHT/MISSED lines of a tools/selftest.sh run."""
import json, os, re, sys, glob
log = open(sys.argv[1]).read()
res = {}
for l in log.splitlines():
    m = re.match(r'(CAUGHT|MISSED) (\S+) \((C\d+)\): (.*)', l)
    if m:
        res[m.group(2)] = (m.group(1), m.group(4).strip())
rows = ["| seed | property | changed (file: function) | what the change does | failing obligation(s) |", "|---|---|---|---|---|"]
for d in sorted(glob.glob('/verif/seeded/*')):
    if not os.path.isdir(d):
        continue
    sid = os.path.basename(d)
    meta = json.load(open(d + '/meta.json'))
    patch = open(d + '/patch.diff').read()
    files = sorted(set(re.findall(r'^\+\+\+ b/(.*)$', patch, re.M)))
    funcs = []
    for f in re.findall(r'^@@.*@@ func (?:\([^)]*\) )?([A-Za-z0-9_]+)', patch, re.M):
        if f not in funcs:
            funcs.append(f)
    summ = (meta.get('summary') or '').replace('\n', ' ').replace('|', '/')
    summ = summ[:230] + ('…' if len(summ) > 230 else '')
    st, obl = res.get(sid, ('not run', ''))
    obls = [o.split(':', 1)[1] if ':' in o else o for o in obl.split()]
    fn = [o.split(':', 1)[0] for o in obl.split()]
    short = '; '.join(sorted(set(f"`{a}:{b}`" for a, b in zip(fn, obls))))[:420]
    rows.append(f"| {sid} | {meta.get('property')} | {', '.join(os.path.basename(f) for f in files)}: {', '.join(funcs) or '-'} | {summ} | {('**MISSED**' if st=='MISSED' else short)} |")
table = '\n'.join(rows)
p = '/verif/DESIGN.md'
s = open(p).read()
if 'SEEDTABLE:BEGIN' in s:
    s = re.sub(r'<!-- SEEDTABLE:BEGIN -->.*?<!-- SEEDTABLE:END -->', '<!-- SEEDTABLE:BEGIN -->\n' + table + '\n<!-- SEEDTABLE:END -->', s, flags=re.S)
else:
    s = s.replace('SEEDTABLE', '<!-- SEEDTABLE:BEGIN -->\n' + table + '\n<!-- SEEDTABLE:END -->', 1)
open(p, 'w').write(s)
print(len(rows) - 2, 'rows')
