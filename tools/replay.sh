#!/bin/bash
# replay.sh <replay_test.go> [repo]: run an in-package replay test against the real code without touching the repo.
# The first line of the file must be "// replay-pkg: pkg/<dir>"; the test functions are named TestZZReplay*.
# exit 0: the replayed property holds on the real code; exit 1: REPLAY-CONFIRMED (the defect is there).
set -u
export PATH=/opt/veriftools/go1.26.8/bin:$PATH GOFLAGS=-mod=mod GOPROXY=off GOSUMDB=off GOTOOLCHAIN=local
f=$(readlink -f "$1"); repo="${2:-${VERIF_REPO:-/repo}}"
pkg=$(head -1 "$f" | sed -n 's|^// replay-pkg: *||p')
[ -n "$pkg" ] || { echo "no replay-pkg header in $f" >&2; exit 2; }
tmp=$(mktemp -d ${VERIF_OUT:-/verif/out}/replaytmp.XXXXXX 2>/dev/null || mktemp -d)
trap 'rm -rf "$tmp"' EXIT
base=$(basename "$f" .go)
echo "{\"Replace\": {\"$repo/$pkg/zz_${base}_test.go\": \"$f\"}}" > $tmp/ov.json
cd $repo && timeout 300 go test -overlay $tmp/ov.json -vet=off -count=1 -timeout 120s -run '^TestZZReplay' ./$pkg/ 2>&1 | tail -30
exit ${PIPESTATUS[0]}
