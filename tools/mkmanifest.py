#!/usr/bin/env python3
"""Regenerates /verif/MANIFEST.json from props/claims.json (claimed checks) and props/not_applicable.json."""
import json, subprocess
props=[json.loads(l) for l in open('/verif/properties.jsonl')]
claims=json.load(open('/verif/props/claims.json'))
na_reasons=json.load(open('/verif/props/not_applicable.json'))
hooks=subprocess.run(['git','-C','/repo','log','--format=%H','--grep','^verif hook'],capture_output=True,text=True).stdout.split()
checks=[]
for pid in sorted(claims):
    c=claims[pid]
    checks.append({
     "property_id": pid,
     "quick_cmd": f"./check {pid}",
     "thorough_cmd": f"./check {pid} --thorough",
     "evidence_file": f"/verif/evidence/{pid}.json",
     "replay_cmd_template": f"./check {pid} --replay {{path}}",
     "engine": "govc",
     "level_claimed": {"category":"proof","text":c["text"],"design_ref":c["design_ref"]},
     "level_note": c.get("note","trusted: govc (go/ssa->SMT translator, contract parser), z3/cvc5, sequential semantics (locks dropped), dropped log/metrics/fmt calls, assumed library contracts listed in the evidence file; see DESIGN.md section 10"),
     "technique": c.get("technique","contract-based deductive verification: weakest-precondition VCs over go/ssa of the real code, contracts in zz_contracts_verif.go (build tag verif), discharged by z3/cvc5"),
    })
na=[]
for p in props:
    if p["id"] in claims: continue
    na.append({"property_id":p["id"],"reason":na_reasons.get(p["id"],"check not built yet (planned: DESIGN.md section 6); not claimed until its obligations discharge on the unchanged tree")})
m={
 "version":1,
 "setup_cmd":"cd /verif/govc && PATH=/opt/veriftools/go1.26.8/bin:$PATH GOFLAGS=-mod=vendor GOTOOLCHAIN=local GOPROXY=off go build -o /verif/bin/govc . && /verif/bin/govc selfcheck",
 "hooks":{
  "guard":"verif",
  "enable":"go build -tags verif (hook files are comment-only zz_contracts_verif.go, one per package; govc loads /repo with -tags=verif)",
  "baseline_off_cmd":"cd /repo && go test -mod=mod -json -vet=off -count=1 -timeout 25m ./...",
  "source_commits":hooks,
  "add_only":True
 },
 "engines":[{"name":"govc","path":"/verif/govc","serves_properties":sorted(claims),"kind_free_text":"VC generator for Go written for this task: go/packages+go/ssa (naive form) of /repo's working tree -> symbolic execution with loop cutting -> one SMT-LIB query per named obligation -> z3 5.1 / z3 4.8.12 / cvc5 1.0 portfolio"}],
 "checks":checks,
 "not_applicable":sorted(na,key=lambda x:x["property_id"]),
 "notes":"Contracts live in /repo/pkg/<p>/zz_contracts_verif.go (build tag verif). known_findings.json lists recorded findings and fixed: lines. Regenerate with tools/mkmanifest.py."
}
json.dump(m,open('/verif/MANIFEST.json','w'),indent=1)
print("claimed:",sorted(claims),"hooks:",len(hooks))
