#!/bin/bash
# try_seed.sh <seed-id-or-patch> <property>...: apply a seeded change to /repo, run the quick checks, undo exactly that patch.
p="$1"; shift
[ -f "$p" ] || p=/verif/seeded/$p/patch.diff
git -C /repo apply "$p" || { echo "patch does not apply"; exit 2; }
for prop in "$@"; do (cd /verif && ./check $prop 2>&1 | grep -v "^  obligation" | tail -6; cd /verif && ./check $prop 2>&1 | grep "^  obligation" | cut -c1-220 | head -8); done
git -C /repo apply -R "$p"
git -C /repo status --short
