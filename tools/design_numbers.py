#!/usr/bin/env python3
# design_numbers.py: refresh the "functions/obligations" numbers in DESIGN.md section 8 from the evidence files
import json, re
s = open('/verif/DESIGN.md').read()
def repl(m):
    pid = m.group(1)
    try:
        e = json.load(open(f'/verif/evidence/{pid}.json'))
    except Exception:
        return m.group(0)
    c = e.get('coverage', {})
    f, o = c.get('functions_under_contract'), c.get('obligations')
    if isinstance(f, list):
        f = len(f)
    if f is None or o is None:
        return m.group(0)
    return f'| {pid} {f}/{o} |'
s2 = re.sub(r'\| (C\d\d) \d+/\d+ \|', repl, s)
open('/verif/DESIGN.md', 'w').write(s2)
print('updated' if s2 != s else 'unchanged')
